package main

import (
	"fmt"
	"math"
	"strings"

	"github.com/DataDog/sketches-go/ddsketch/mapping"
)

var alphaGrid = []float64{1e-6, 1e-4, 1e-3, 0.01, 0.02, 0.05, 0.1, 0.3, 0.5, 0.9, 0.99}

// skGen generates sketch-level histories. It drives a private Runner (the "shadow") with every
// line it emits, so that it can read the real sketches' state to produce the oracle lines
// (`mv`: the real mapping's Value for every bin a query may report).
type skGen struct {
	fine     bool // this history uses full-mantissa weights (and only a few of them)
	g        *Gen
	sh       *Runner
	prop     string
	m        mapping.IndexMapping
	mh       int
	mkind    string
	emittedV map[[2]int]bool
	center   int
	span     int
	clusters []int
	inPanic  bool
	clusterR int
	negPct   int
	values   []float64
}

func (g *Gen) newSkGen(prop string) *skGen {
	sh := NewRunner()
	sh.quiet = true
	return &skGen{g: g, sh: sh, prop: prop, emittedV: map[[2]int]bool{}}
}

// line emits a protocol line and executes it on the shadow implementation; returns its output.
func (sg *skGen) line(format string, a ...interface{}) string {
	s := fmt.Sprintf(format, a...)
	sg.g.emit("%s", s)
	out, _ := sg.sh.Exec(s)
	return out
}

func (sg *skGen) newMappingHandle(mh int, kind string, alpha float64, customOffset bool) mapping.IndexMapping {
	var m mapping.IndexMapping
	switch kind {
	case "log":
		m, _ = mapping.NewLogarithmicMapping(alpha)
	case "linear":
		m, _ = mapping.NewLinearlyInterpolatedMapping(alpha)
	default:
		m, _ = mapping.NewCubicallyInterpolatedMapping(alpha)
	}
	pb := m.ToProto()
	gamma, off := pb.Gamma, pb.IndexOffset
	if customOffset {
		r := sg.g.rng
		off = []float64{0.5, -0.5, 1000, -1000, 1e6, 0.25, 123.456}[r.Intn(7)]
		m, _ = newMapping(kind, gamma, off)
	}
	sg.line("M %d %s %s %s %s %s %s", mh, kind, hexF(gamma), hexF(off), hexF(m.MinIndexableValue()), hexF(m.MaxIndexableValue()), hexF(m.RelativeAccuracy()))
	return m
}

func (sg *skGen) pickMapping() {
	r := sg.g.rng
	sg.mkind = []string{"log", "linear", "cubic"}[r.Intn(3)]
	alpha := alphaGrid[r.Intn(len(alphaGrid))]
	if r.Bool(15) {
		alpha = math.Exp(math.Log(1e-6) + r.Float01()*(math.Log(0.99)-math.Log(1e-6)))
	}
	sg.mh = 1
	sg.m = sg.newMappingHandle(1, sg.mkind, alpha, r.Bool(20))
	sg.g.stats["mapping:"+sg.mkind]++
	// window of indexes a history may touch (bounded so that dense arrays stay small)
	lo, hi := sg.m.Index(sg.m.MinIndexableValue()*1.0001), sg.m.Index(sg.m.MaxIndexableValue()*0.9999)
	sg.span = 1 << uint(r.Range(3, 13))
	if hi-lo < 2*sg.span+4 {
		sg.span = (hi - lo) / 2
		if sg.span < 1 {
			sg.span = 1
		}
	}
	switch r.Pick(50, 12, 12, 26) {
	case 0: // around 1.0
		sg.center = sg.m.Index(1)
	case 1: // bottom of the range
		sg.center = lo + sg.span + 1
	case 2: // top of the range
		sg.center = hi - sg.span - 1
	default:
		sg.center = lo + sg.span + 1 + r.Intn(hi-lo-2*sg.span-1)
	}
	if sg.center-sg.span < lo {
		sg.center = lo + sg.span
	}
	if sg.center+sg.span > hi {
		sg.center = hi - sg.span
	}
	sg.clusters = nil
	sg.clusterR = []int{4, 10, 24}[r.Intn(3)]
	sg.negPct = []int{35, 35, 35, 5, 90}[r.Intn(5)]
	if sg.span >= 64 && r.Bool(50) {
		for k, n := 0, r.Range(1, 3); k < n; k++ {
			sg.clusters = append(sg.clusters, sg.center+r.Range(-sg.span+24, sg.span-24))
		}
	}
}

func nudge(x float64, ulps int) float64 {
	for i := 0; i < ulps; i++ {
		x = math.Nextafter(x, math.Inf(1))
	}
	for i := 0; i > ulps; i-- {
		x = math.Nextafter(x, 0)
	}
	return x
}

// pickIndex: a bin of the window; in clustered histories most picks fall near a few centres (so that
// paginated stores keep some bins in pages and others in the buffer, and compact repeatedly).
func (sg *skGen) pickIndex() int {
	r := sg.g.rng
	if len(sg.clusters) > 0 && r.Bool(75) {
		i := sg.clusters[r.Intn(len(sg.clusters))] + r.Range(-sg.clusterR, sg.clusterR)
		if i >= sg.center-sg.span && i <= sg.center+sg.span {
			return i
		}
	}
	return sg.center + r.Range(-sg.span, sg.span)
}

// nextValue returns a trackable value (possibly zero / sub-minimum), sign included.
func (sg *skGen) nextValue() float64 {
	r := sg.g.rng
	m := sg.m
	var v float64
	switch r.Pick(30, 28, 8, 6, 6, 14, 8) {
	case 0: // interior of a random bin of the window
		i := sg.pickIndex()
		lo, hi := m.LowerBound(i), m.LowerBound(i+1)
		v = lo + (hi-lo)*r.Float01()
	case 1: // bin edge ± k ulps
		i := sg.pickIndex()
		v = nudge(m.LowerBound(i), r.Range(-3, 3))
	case 2: // zero bucket: 0, -0, subnormal, just below the minimum
		v = []float64{0, math.Copysign(0, -1), 5e-324, m.MinIndexableValue(), nudge(m.MinIndexableValue(), -1), m.MinIndexableValue() / 2}[r.Intn(6)]
	case 3: // just above the smallest indexable magnitude
		v = nudge(m.MinIndexableValue(), r.Range(1, 4))
	case 4: // at and just below the largest indexable magnitude
		v = nudge(m.MaxIndexableValue(), -r.Range(0, 4))
	case 5: // duplicate of an earlier value
		if len(sg.values) > 0 {
			return sg.values[r.Intn(len(sg.values))]
		}
		v = 1
	default: // small integers
		v = float64(r.Range(1, 100))
	}
	// keep the index window bounded
	if v > m.MinIndexableValue() && v <= m.MaxIndexableValue() {
		k := m.Index(v)
		if (k < sg.center-sg.span-2 || k > sg.center+sg.span+2) && !(sg.storeUnbounded()) {
			i := sg.center + r.Range(-sg.span, sg.span)
			v = nudge(m.LowerBound(i), 2)
		}
	}
	if r.Bool(sg.negPct) {
		v = -v
	}
	sg.values = append(sg.values, v)
	return v
}

func (sg *skGen) storeUnbounded() bool { return false }

func (sg *skGen) idxFor(v float64) string {
	a := math.Abs(v)
	if a > sg.m.MinIndexableValue() && a <= sg.m.MaxIndexableValue() {
		return fmt.Sprint(sg.m.Index(a))
	}
	return "-"
}

func (sg *skGen) add(h int, v, w float64) string {
	return sg.line("add %d %s %s %s", h, hexF(v), hexF(w), sg.idxFor(v))
}

// ensureValues emits the Value() oracle for every bin currently held by sketch h.
func (sg *skGen) ensureValues(h int) {
	e, ok := sg.sh.sks[h]
	if !ok || e.poisoned || e.sk() == nil {
		return
	}
	m := sg.sh.mappingOf(e)
	if m == nil {
		return
	}
	emit := func(k int) {
		key := [2]int{e.mh, k}
		if !sg.emittedV[key] {
			sg.emittedV[key] = true
			sg.line("mv %d %d %s", e.mh, k, hexF(m.Value(k)))
		}
	}
	okp, _ := guard(func() {
		e.sk().GetPositiveValueStore().ForEach(func(i int, c float64) bool { emit(i); return false })
		e.sk().GetNegativeValueStore().ForEach(func(i int, c float64) bool { emit(i); return false })
	})
	if !okp && !sg.inPanic {
		sg.inPanic = true
		sg.line("xpanic %d foreach", h)
		sg.inPanic = false
	}
}

func (sg *skGen) obs(h int) {
	sg.ensureValues(h)
	if sg.g.rng.Bool(35) {
		// iteration stops as soon as asked (k-th call); k = 0 never asks
		sg.line("fe %d %d", h, sg.g.rng.Intn(6))
	}
	e := sg.sh.sks[h]
	if e != nil && e.storeKind == "sparse" && e.exact == nil {
		sg.line("obs %d nosum", h)
	} else {
		sg.line("obs %d", h)
	}
}

// qValues: 0, 1, k/(n-1) and its float neighbours, dyadic and random quantiles.
func (sg *skGen) qValues(h int, howMany int) []float64 {
	r := sg.g.rng
	e := sg.sh.sks[h]
	n := 1.0
	if e != nil && e.sk() != nil && !e.poisoned {
		n = e.sk().GetCount()
	}
	qs := []float64{0, 1}
	for len(qs) < howMany {
		switch r.Pick(40, 20, 25, 15) {
		case 0:
			if n >= 2 {
				k := float64(r.Intn(int(math.Min(n, 1e6))))
				q := k / (n - 1)
				qs = append(qs, q, math.Nextafter(q, 0), math.Nextafter(q, 2))
			} else {
				qs = append(qs, r.Float01())
			}
		case 1:
			qs = append(qs, float64(r.Intn(17))/16)
		case 2:
			qs = append(qs, r.Float01())
		default:
			qs = append(qs, []float64{0.5, 0.25, 0.75, 0.99, 0.999, 0.001, 0.9, 0.1}[r.Intn(8)])
		}
	}
	out := qs[:0]
	for _, q := range qs {
		if q >= 0 && q <= 1 {
			out = append(out, q)
		}
	}
	return out
}

// probe: one multi-quantile read at interior ranks (cheap enough to interleave with every addition)
func (sg *skGen) probe(h int, howMany int) {
	sg.ensureValues(h)
	qs := sg.qValues(h, howMany+2)
	parts := make([]string, 0, len(qs))
	for _, q := range qs[2:] {
		parts = append(parts, hexF(q))
	}
	if len(parts) > 0 {
		sg.line("qs %d %s", h, strings.Join(parts, " "))
	}
}

func (sg *skGen) queries(h int, howMany int) {
	sg.ensureValues(h)
	qs := sg.qValues(h, howMany)
	for _, q := range qs {
		sg.line("q %d %s", h, hexF(q))
	}
	if sg.g.rng.Bool(40) && len(qs) > 2 {
		parts := make([]string, 0, 6)
		for i := 0; i < 6 && i < len(qs); i++ {
			parts = append(parts, hexF(qs[sg.g.rng.Intn(len(qs))]))
		}
		sg.line("qs %d %s", h, strings.Join(parts, " "))
	}
}

func (sg *skGen) storeSpec(kinds []string) string {
	r := sg.g.rng
	k := kinds[r.Intn(len(kinds))]
	if k == "low" || k == "high" {
		n := binLimits[r.Intn(len(binLimits))]
		return fmt.Sprintf("%s %d", k, n)
	}
	return k
}

func (sg *skGen) weight(unitPct int) float64 {
	r := sg.g.rng
	if sg.fine {
		// full-mantissa dyadic weights j/2^52 < 1/4 (j odd): w+1 and (total count)+1 use every
		// mantissa bit, so their varfloats take all 9 bytes; sums of up to three of them stay below 1
		// and on the 2^-52 grid, hence exact
		return float64(r.U64()>>14|1) / float64(uint64(1)<<52)
	}
	if r.Bool(unitPct) {
		return 1
	}
	switch r.Pick(25, 30, 15, 5, 10, 15) {
	case 0:
		return float64(r.Range(2, 9))
	case 1:
		return float64(r.Range(1, 4096)) / 1024
	case 2:
		return 0.5
	case 3:
		return 1 << 20
	case 4:
		return float64(r.Range(1, 64)) / 1024 // below one
	default:
		return float64(r.Range(1, 63)) / 4
	}
}

var nonCollapsing = []string{"dense", "sparse", "pag"}
var allKinds = []string{"dense", "sparse", "pag", "pag", "dense", "low", "high"}

// genSketchHistory emits one self-contained sketch-level history for property prop.
func (g *Gen) genSketchHistory(prop string) {
	r := g.rng
	sg := g.newSkGen(prop)
	g.beginHist(prop)
	sg.sh.Exec(fmt.Sprintf("#hist %d", g.hist))
	sg.pickMapping()
	maxN := 60
	if r.Bool(20) {
		// long enough to cross the stores' phase changes (paginated compaction at 64/128 buffered
		// entries, dense array growth) also in the quick tier
		maxN = 300
	}
	if g.thorough() {
		maxN = 400
		if r.Bool(5) {
			maxN = 2000
		}
	}
	switch prop {
	case "C01":
		n := r.Range(1, maxN)
		// queries interleaved with the additions (every addition / now and then / only at the end):
		// a quantile read must not disturb what later additions and reads see
		qEvery := []int{0, 0, 1, 7, 40}[r.Intn(5)]
		if qEvery > 0 && r.Bool(60) {
			n = r.Range(n, maxInt(n, minInt(8*maxN, 480))) // long enough for the paginated store to compact more than once
			sg.line("K 1 1 %s", sg.storeSpec([]string{"pag", "pag", "dense", "sparse"}))
		} else {
			sg.line("K 1 1 %s", sg.storeSpec(nonCollapsing))
		}
		for i := 0; i < n; i++ {
			sg.add(1, sg.nextValue(), 1)
			if qEvery > 0 && (i%qEvery == 0 || r.Bool(3)) {
				sg.probe(1, 10)
			}
		}
		sg.queries(1, 24)
		sg.obs(1)
	case "C11":
		kinds := nonCollapsing
		if r.Bool(25) {
			kinds = allKinds
		}
		x := ""
		if r.Bool(30) {
			x = " x" // the exact-summary variant clamps its answers to the exact extremes
		}
		small := r.Bool(40) // total weight below one
		long := !small && r.Bool(20)
		if long {
			kinds = []string{"pag", "pag", "pag", "dense", "sparse", "low", "high"}
		}
		sg.line("K 1 1 %s%s", sg.storeSpec(kinds), x)
		n := r.Range(1, maxN/2)
		unitPct := 20
		if long {
			// long runs mixing unit and weighted additions on recurring values: a paginated store then
			// holds one bin both as buffered unit entries and as page weight, across compactions
			n = r.Range(70, 220)
			unitPct = 70
		}
		for i := 0; i < n; i++ {
			w := sg.weight(unitPct)
			if small {
				w = float64(r.Range(1, 40)) / 1024
				if i >= 3 {
					break
				}
			}
			sg.add(1, sg.nextValue(), w)
			if r.Bool(10) {
				sg.queries(1, 5)
			}
		}
		if r.Bool(40) {
			f := []float64{0.5, 0.25, 0.125, 1.0 / 1024, 2, 0.75}[r.Intn(6)]
			sg.line("rew 1 %s", hexF(f))
		}
		sg.queries(1, 20)
		sg.obs(1)
	case "C05":
		sg.line("K 1 1 %s", sg.storeSpec([]string{"low", "high"}))
		n := r.Range(1, maxN)
		for i := 0; i < n; i++ {
			sg.add(1, sg.nextValue(), sg.weight(70))
		}
		sg.queries(1, 20)
		sg.obs(1)
	case "C02":
		sg.genMergeHistory(maxN)
	case "C12":
		sg.genGeneralHistory(maxN, false)
	case "C10":
		sg.genGeneralHistory(maxN, true)
	case "C14", "C15", "C16":
		sg.genGeneralHistory(maxN, r.Bool(35))
	case "C13":
		sg.genInvalidHistory()
	}
}

// genMergeHistory (C02): an input split over several sketches, merged along a random tree, compared
// with a single sketch fed the whole input.
func (sg *skGen) genMergeHistory(maxN int) {
	r := sg.g.rng
	parts := r.Range(1, 6)
	single := 9
	x := ""
	if r.Bool(30) {
		x = " x" // exact statistics merge along the same tree
	}
	sg.line("K %d 1 %s%s", single, sg.storeSpec(nonCollapsing), x)
	for p := 1; p <= parts; p++ {
		sg.line("K %d 1 %s%s", p, sg.storeSpec(nonCollapsing), x)
	}
	// parts that were used before, then cleared: they must behave like new sketches in every merge
	for p := 1; p <= parts; p++ {
		if r.Bool(25) {
			for k, m := 0, r.Range(1, 12); k < m; k++ {
				sg.add(p, sg.nextValue(), sg.weight(50))
			}
			sg.line("clear %d", p)
		}
	}
	n := r.Range(0, maxN)
	if r.Bool(15) {
		n = r.Range(0, 4)
	}
	unit := r.Bool(60)
	for i := 0; i < n; i++ {
		v := sg.nextValue()
		w := 1.0
		if !unit {
			w = sg.weight(50)
		}
		p := r.Range(1, parts)
		sg.add(p, v, w)
		sg.add(single, v, w)
		if r.Bool(3) { // a part that is cleared and refilled
			q := r.Range(1, parts)
			if e := sg.sh.sks[q]; e != nil && len(e.inputs) == 0 {
				sg.line("clear %d", q)
			}
		}
	}
	// merge along a random tree: repeatedly merge a live part into another
	live := []int{}
	for p := 1; p <= parts; p++ {
		live = append(live, p)
	}
	for len(live) > 1 {
		i := r.Intn(len(live))
		j := r.Intn(len(live))
		if i == j {
			continue
		}
		sg.line("merge %d %d", live[i], live[j])
		if r.Bool(30) {
			sg.obs(live[j]) // the argument is unchanged
		}
		live = append(live[:j], live[j+1:]...)
	}
	root := live[0]
	if r.Bool(30) { // merging an empty sketch is a no-op
		sg.line("K 8 1 %s%s", sg.storeSpec(nonCollapsing), x)
		sg.line("merge %d 8", root)
	}
	sg.ensureValues(root)
	sg.ensureValues(single)
	sg.line("same %d %d", root, single)
	sg.obs(root)
	sg.queries(root, 16)
}

// envelope of exact float arithmetic: every weight held by sketch h is a multiple of 2^-g and the total is
// T; as long as T*2^g < 2^52 every sum of weights the implementation forms is exact. envOf measures the
// shadow sketch itself (its bins are exact so far, by induction).
func (sg *skGen) envOf(h int) (float64, int) {
	e := sg.sh.sks[h]
	if e == nil || e.poisoned || e.sk() == nil {
		return 0, 0
	}
	g := 0
	see := func(w float64) {
		if w == 0 || math.IsInf(w, 0) || math.IsNaN(w) {
			return
		}
		fr, ex := math.Frexp(w) // w = fr * 2^ex, fr in [0.5,1): 53-bit mantissa m = fr*2^53
		m := uint64(fr * (1 << 53))
		tz := 0
		for m&1 == 0 && tz < 53 {
			m >>= 1
			tz++
		}
		if low := -(ex - 53 + tz); low > g { // exponent of the lowest set bit is ex-53+tz
			g = low
		}
	}
	total := 0.0
	guard(func() {
		see(e.sk().GetZeroCount())
		e.sk().GetPositiveValueStore().ForEach(func(i int, c float64) bool { see(c); return false })
		e.sk().GetNegativeValueStore().ForEach(func(i int, c float64) bool { see(c); return false })
		total = e.sk().GetCount()
	})
	return total, g
}

func fitsEnvelope(total float64, g int) bool {
	return total >= 0 && total*math.Ldexp(1, g) < 1<<50
}

// genGeneralHistory: add / merge / copy / clear / reweight / observe interleaved over a few live
// sketches of any store kind (C10, C12, C14, C15, C16).
func (sg *skGen) genGeneralHistory(maxN int, exact bool) {
	r := sg.g.rng
	x := ""
	if exact {
		x = " x"
	}
	kinds := allKinds
	mk := func(h int) { sg.line("K %d 1 %s%s", h, sg.storeSpec(kinds), x) }
	mk(1)
	mk(2)
	live := []int{1, 2}
	nOps := r.Range(maxN/4+1, maxN)
	wAdd, wMerge, wCopy, wClear, wRew, wObs, wQ := 55, 6, 4, 3, 4, 8, 10
	switch sg.prop {
	case "C14":
		wObs, wQ, wCopy = 16, 16, 8
	case "C15":
		wClear = 10
	case "C16":
		wRew = 12
	}
	// C15: a cleared sketch is compared with a fresh twin fed the same later history
	twin := map[int]int{}
	// C14 (round 11, seeded change C14f): a QUIET twin of sketch 1 receives every mutation of sketch 1 and is never
	// read before the end of the history; a read that changes a later answer makes the two differ (`same`), whatever
	// the model says
	quiet := map[int]int{}
	if sg.prop == "C14" && r.Bool(50) {
		e := sg.sh.sks[1]
		spec := e.storeKind
		if e.n > 0 {
			spec = fmt.Sprintf("%s %d", e.storeKind, e.n)
		}
		sg.line("K 30 1 %s%s", spec, x)
		quiet[1] = 30
		sg.g.stats["quiet-twin"]++
	}
	apply := func(h int, f func(h int)) {
		f(h)
		if t, ok := twin[h]; ok {
			f(t)
		}
		if t, ok := quiet[h]; ok {
			f(t)
		}
	}
	for op := 0; op < nOps; op++ {
		h := live[r.Intn(len(live))]
		switch r.Pick(wAdd, wMerge, wCopy, wClear, wRew, wObs, wQ) {
		case 0:
			v, w := sg.nextValue(), sg.weight(60)
			if r.Bool(3) {
				w = 0
			}
			if t, g := sg.envOf(h); !fitsEnvelope(t+w, maxInt(g, 10)) {
				continue
			}
			apply(h, func(h int) { sg.add(h, v, w) })
		case 1:
			o := live[r.Intn(len(live))]
			if o == h {
				// a sketch merged into itself (it doubles), now and then, when no twin follows it
				_, hasQuiet := quiet[h]
				if _, hasTwin := twin[h]; hasTwin || hasQuiet || !r.Bool(30) {
					continue
				}
			}
			if th, gh := sg.envOf(h); true {
				to, g := sg.envOf(o)
				if gh > g {
					g = gh
				}
				if !fitsEnvelope(th+to, g) {
					continue
				}
			}
			apply(h, func(h int) { sg.line("merge %d %d", h, o) })
			if r.Bool(40) {
				sg.obs(o)
			}
		case 2:
			dst := r.Range(2, 4)
			if dst == h {
				continue
			}
			if _, isTwin := twin[dst]; isTwin {
				continue
			}
			sg.line("copy %d %d", dst, h)
			delete(twin, dst)
			found := false
			for _, l := range live {
				if l == dst {
					found = true
				}
			}
			if !found {
				live = append(live, dst)
			}
			sg.ensureValues(dst)
			sg.line("same %d %d", dst, h) // a copy answers like its original
		case 3:
			sg.line("clear %d", h)
			delete(twin, h)
			if q, ok := quiet[h]; ok {
				sg.line("clear %d", q)
			}
			if sg.prop == "C15" || r.Bool(30) {
				e := sg.sh.sks[h]
				t := 10 + h
				spec := e.storeKind
				if e.n > 0 {
					spec = fmt.Sprintf("%s %d", e.storeKind, e.n)
				}
				sg.line("K %d 1 %s%s", t, spec, x)
				twin[h] = t
			}
		case 4:
			f := []float64{0.5, 0.25, 2, 4, 1.5, 0.75, 3, 1, 0.125}[r.Intn(9)]
			if t, g := sg.envOf(h); !fitsEnvelope(t*f*4, g+3) { // f = n/2^d with d <= 3, n <= 3
				continue
			}
			apply(h, func(h int) { sg.line("rew %d %s", h, hexF(f)) })
		case 5:
			sg.obs(h)
			if t, ok := twin[h]; ok {
				sg.ensureValues(t)
				sg.line("same %d %d", h, t)
			}
		default:
			sg.queries(h, 4)
		}
		if sg.prop == "C14" && r.Bool(30) {
			sg.ensureValues(h)
			sg.encchk(h, r.Bool(50)) // Encode is a read-only operation too
		}
		if sg.prop == "C14" && r.Bool(5) {
			// refill: k unit entries (out of order), an ordering read, Clear, exactly k unit entries again, a read —
			// a cache keyed on the buffer length that a read fills and Clear forgets to reset shows here
			if _, isTwin := twin[h]; !isTwin {
				k := r.Range(2, 9)
				burst := func() {
					for j := 0; j < k; j++ {
						v := sg.nextValue()
						apply(h, func(h int) { sg.add(h, v, 1) })
					}
				}
				clr := func() {
					sg.line("clear %d", h)
					if q, ok := quiet[h]; ok {
						sg.line("clear %d", q)
					}
				}
				clr()
				burst()
				sg.queries(h, 2)
				clr()
				burst()
				sg.queries(h, 3)
				sg.obs(h)
				sg.g.stats["refill-after-read"]++
			}
		}
		if sg.prop == "C15" && r.Bool(3) {
			// a refused decode leaves the target in an unspecified state; Clear() must make it new again
			if _, isTwin := twin[h]; !isTwin {
				e := sg.sh.sks[h]
				var bs []byte
				if e.exact != nil && r.Bool(60) { // an encoding without the exact statistics
					sg.line("K 21 1 %s", sg.storeSpec(nonCollapsing))
					sg.fillSketch(21, r.Range(1, 8), 60)
					bs, _ = sg.bytesOf(21, false)
				} else if full, ok := sg.bytesOf(h, false); ok && len(full) > 3 {
					bs = full[:r.Range(1, len(full)-1)] // cut somewhere
				}
				if len(bs) > 0 && strings.HasPrefix(sg.line("decm %d %s", h, showBytes(bs)), "err") {
					sg.line("clear %d", h)
					t := 10 + h
					spec := e.storeKind
					if e.n > 0 {
						spec = fmt.Sprintf("%s %d", e.storeKind, e.n)
					}
					sg.line("K %d 1 %s%s", t, spec, x)
					twin[h] = t
					sg.obs(h)
					sg.ensureValues(t)
					sg.line("same %d %d", h, t)
				}
			}
		}
		if sg.prop == "C10" && r.Bool(12) {
			// encode / decode round trip of the exact variant: statistics restored exactly
			sg.ensureValues(h)
			if bs, ok := sg.bytesOf(h, false); ok {
				e := sg.sh.sks[h]
				spec := e.storeKind
				if e.n > 0 {
					spec = fmt.Sprintf("%s %d", e.storeKind, e.n)
				}
				if sg.dec(20, "-", 1, spec, e.exact != nil, bs) == "ok" {
					sg.ensureValues(20)
					sg.line("same %d 20", h)
					if r.Bool(50) { // decode-and-merge into a live sketch
						o := live[r.Intn(len(live))]
						th, gh := sg.envOf(h)
						to, g := sg.envOf(o)
						if gh > g {
							g = gh
						}
						if _, isTwin := twin[o]; !isTwin && o != h && fitsEnvelope(th+to, g) {
							sg.line("decm %d %s", o, showBytes(bs))
							sg.obs(o)
						}
					}
				}
			}
		}
	}
	for _, h := range live {
		sg.obs(h)
		sg.queries(h, 8)
		if t, ok := twin[h]; ok {
			sg.ensureValues(t)
			sg.line("same %d %d", h, t)
		}
		if t, ok := quiet[h]; ok {
			sg.ensureValues(t)
			sg.line("same %d %d", h, t)
		}
	}
}

// genInvalidHistory (C13): boundary and invalid arguments in random states, both variants.
func (sg *skGen) genInvalidHistory() {
	r := sg.g.rng
	sg.g.emit("#frame")
	sg.sh.Exec("#frame")
	x := ""
	if r.Bool(50) {
		x = " x"
	}
	sg.line("K 1 1 %s%s", sg.storeSpec(allKinds), x)
	n := r.Range(0, 20)
	for i := 0; i < n; i++ {
		sg.add(1, sg.nextValue(), sg.weight(60))
	}
	m := sg.m
	mx, mn := m.MaxIndexableValue(), m.MinIndexableValue()
	vals := []float64{math.NaN(), math.Inf(1), math.Inf(-1), math.MaxFloat64, -math.MaxFloat64, mx, -mx,
		math.Nextafter(mx, math.Inf(1)), -math.Nextafter(mx, math.Inf(1)), math.Nextafter(mx, 0), -math.Nextafter(mx, 0),
		0, math.Copysign(0, -1), mn, -mn, math.Nextafter(mn, 1), 1, -1}
	ws := []float64{1, 0, -1, -0.5, 0.5, 2, -1e-300, math.Copysign(0, -1)}
	for i := 0; i < 40; i++ {
		v := vals[r.Intn(len(vals))]
		w := ws[r.Intn(len(ws))]
		// a valid add far outside the index window would blow up dense stores
		a := math.Abs(v)
		if w > 0 && a > mn && a <= mx {
			k := m.Index(a)
			if k < sg.center-sg.span-2 || k > sg.center+sg.span+2 {
				w = -w
			}
		}
		sg.add(1, v, w)
		if r.Bool(30) {
			q := []float64{math.NaN(), -1e-300, math.Nextafter(1, 2), math.Inf(1), math.Inf(-1), -0.5, 2, 0, 1, 0.5, math.Copysign(0, -1)}[r.Intn(11)]
			sg.ensureValues(1)
			sg.line("q 1 %s", hexF(q))
		}
		if r.Bool(15) {
			// the batch query: an invalid quantile at any position (first, middle, last) refuses the batch
			qsAll := []float64{math.NaN(), -1e-300, math.Nextafter(1, 2), math.Inf(1), -0.5, 2, 0, 1, 0.5, 0.25, 0.75, 0.999}
			k := r.Range(2, 5)
			parts := make([]string, k)
			for j := range parts {
				parts[j] = hexF(qsAll[6+r.Intn(6)]) // valid
			}
			if r.Bool(75) {
				parts[r.Intn(k)] = hexF(qsAll[r.Intn(6)]) // one invalid, anywhere
			}
			sg.ensureValues(1)
			sg.line("qs 1 %s", strings.Join(parts, " "))
		}
		if r.Bool(10) {
			f := []float64{0, -1, -0.5, math.Inf(-1), 1, 2, 0.5}[r.Intn(7)]
			sg.line("rew 1 %s", hexF(f))
		}
	}
	// merging sketches with different mappings is refused
	if x == "" || true {
		otherKind := []string{"log", "linear", "cubic"}[r.Intn(3)]
		alpha := alphaGrid[r.Intn(len(alphaGrid))]
		sg.newMappingHandle(2, otherKind, alpha, r.Bool(30))
		sg.line("K 2 2 sparse%s", x)
		sg.line("merge 1 2")
		sg.line("merge 2 1")
	}
	// constructors: accuracies outside (0,1), bases not above one, negative bin counts
	kinds := []string{"log", "linear", "cubic"}
	for i := 0; i < 6; i++ {
		a := []float64{0, 1, -0.5, 1.5, math.Nextafter(1, 0), math.Nextafter(0, 1), 0.01, 0.5, math.Inf(1), math.Inf(-1), -1e-300, math.Nextafter(1, 2), 1e-9}[r.Intn(13)]
		sg.line("mkalpha %s %s", kinds[r.Intn(3)], hexF(a))
		gm := []float64{1, math.Nextafter(1, 2), math.Nextafter(1, 0), 0, -2, 2, 1.02, 0.5, math.Inf(1)}[r.Intn(9)]
		if !math.IsInf(gm, 1) {
			sg.line("mkgamma %s %s %s", kinds[r.Intn(3)], hexF(gm), hexF(float64(r.Range(-3, 3))))
		}
		c := []float64{0, 1, -1, -1e-300, 0.5, math.Copysign(0, -1), 1e300}[r.Intn(7)]
		sg.line("mkbin %d %s", r.Range(-100, 100), hexF(c))
	}
	// queries on an empty sketch
	sg.line("K 3 1 dense%s", x)
	sg.line("q 3 %s", hexF(0.5))
	sg.line("obs 3")
	sg.obs(1)
}

// encchk emits the implementation's encoding of sketch h for the documentation decoder of the model.
func (sg *skGen) encchk(h int, omit bool) {
	e, ok := sg.sh.sks[h]
	if !ok || e.poisoned {
		return
	}
	var bs []byte
	if okp, _ := guard(func() { bs = encodeBytes(e, omit) }); !okp {
		sg.line("xpanic %d encode", h)
		return
	}
	sg.line("encchk %d %d %s", h, b2i(omit), showBytes(bs))
}

func maxInt(a, b int) int {
	if a > b {
		return a
	}
	return b
}

func minInt(a, b int) int {
	if a < b {
		return a
	}
	return b
}
