package main

import (
	"encoding/hex"
	"fmt"
	"math"
	"math/big"
	"sort"
	"strings"
)

// ratOf returns the exact rational value of a finite float64.
func ratOf(f float64) *big.Rat {
	r := new(big.Rat)
	r.SetFloat64(f)
	return r
}

// showRat prints like Lean's `toString (q : Rat)`: "n" for integers, "n/d" otherwise.
func showRat(r *big.Rat) string {
	if r.IsInt() {
		return r.Num().String()
	}
	return r.String()
}

// showF prints a float64 in the canonical text form of the protocol.
func showF(f float64) string {
	switch {
	case math.IsNaN(f):
		return "nan"
	case math.IsInf(f, 1):
		return "inf"
	case math.IsInf(f, -1):
		return "-inf"
	}
	return showRat(ratOf(f))
}

func hexF(f float64) string { return fmt.Sprintf("%016x", math.Float64bits(f)) }

func showBytes(b []byte) string {
	if len(b) == 0 {
		return "-"
	}
	return hex.EncodeToString(b)
}

func parseBytes(s string) ([]byte, error) {
	if s == "-" {
		return []byte{}, nil
	}
	return hex.DecodeString(s)
}

type binRat struct {
	idx int
	w   *big.Rat
}

func showBinsRat(bs []binRat) string {
	if len(bs) == 0 {
		return "-"
	}
	parts := make([]string, len(bs))
	for i, b := range bs {
		parts[i] = fmt.Sprintf("%d:%s", b.idx, showRat(b.w))
	}
	return strings.Join(parts, ",")
}

func sortBins(bs []binRat) {
	sort.SliceStable(bs, func(i, j int) bool { return bs[i].idx < bs[j].idx })
}

func parseRat(s string) (*big.Rat, bool) {
	r := new(big.Rat)
	_, ok := r.SetString(s)
	return r, ok
}

// ratToFloatExact converts a rational to float64 and reports whether it was exact.
func ratToFloatExact(r *big.Rat) (float64, bool) {
	f, exact := r.Float64()
	return f, exact
}
