package main

import (
	"bufio"
	"fmt"
	"io"
	"math/big"
)

// Gen writes protocol lines. Every random choice comes from one Rng.
type Gen struct {
	w      *bufio.Writer
	rng    *Rng
	tier   string
	hist   int
	stats  map[string]int
	sample []string // first history, for the evidence file
	cur    []string
}

func NewGen(w io.Writer, seed uint64, tier string) *Gen {
	return &Gen{w: bufio.NewWriter(w), rng: NewRng(seed), tier: tier, stats: map[string]int{}}
}

func (g *Gen) emit(format string, a ...interface{}) {
	s := fmt.Sprintf(format, a...)
	fmt.Fprintln(g.w, s)
	if g.hist <= 2 && len(g.cur) < 60 {
		g.cur = append(g.cur, s)
	}
}

func (g *Gen) beginHist(tag string) {
	g.hist++
	if g.hist == 2 {
		g.sample = g.cur
	}
	if g.hist <= 2 {
		g.cur = nil
	}
	g.emit("#hist %d %s", g.hist, tag)
}

func (g *Gen) thorough() bool { return g.tier == "thorough" }

func (g *Gen) finish() {
	if g.sample == nil {
		g.sample = g.cur
	}
	g.w.Flush()
}

func ratInt(n int64) *big.Rat     { return new(big.Rat).SetInt64(n) }
func ratFrac(n, d int64) *big.Rat { return big.NewRat(n, d) }
func pow2Rat(e int) *big.Rat {
	if e >= 0 {
		return new(big.Rat).SetInt(new(big.Int).Lsh(big.NewInt(1), uint(e)))
	}
	return new(big.Rat).SetFrac(big.NewInt(1), new(big.Int).Lsh(big.NewInt(1), uint(-e)))
}
