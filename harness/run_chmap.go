package main

import (
	"fmt"
	"math"
	"math/big"
	"strconv"
	"strings"

	"github.com/DataDog/sketches-go/ddsketch"
	"github.com/DataDog/sketches-go/ddsketch/mapping"
	"github.com/DataDog/sketches-go/ddsketch/store"
)

type fbin struct {
	idx int
	w   float64
}

func rawBins(s store.Store) []fbin {
	var out []fbin
	for _, b := range storeBinsF(s) {
		out = append(out, b)
	}
	return out
}

// storeBinsF lists a store's bins (sorted) with their float weights.
func storeBinsF(s store.Store) []fbin {
	var out []fbin
	s.ForEach(func(i int, c float64) bool { out = append(out, fbin{i, c}); return false })
	for i := 1; i < len(out); i++ {
		for j := i; j > 0 && out[j].idx < out[j-1].idx; j-- {
			out[j], out[j-1] = out[j-1], out[j]
		}
	}
	return out
}

func showFBins(bs []fbin) string {
	if len(bs) == 0 {
		return "-"
	}
	parts := make([]string, len(bs))
	for i, b := range bs {
		parts[i] = fmt.Sprintf("%d:%s", b.idx, hexF(b.w))
	}
	return strings.Join(parts, ",")
}

// doChangeMapping runs ChangeMapping on sketch e into fresh stores of the given kind.
func doChangeMapping(e *skEntry, m2 mapping.IndexMapping, scale float64, kind string, n int) (*ddsketch.DDSketch, *ddsketch.DDSketchWithExactSummaryStatistics) {
	p := providerOf(kind, n)
	if e.exact != nil {
		x := e.exact.ChangeMapping(m2, p, scale)
		return x.DDSketch, x
	}
	return e.plain.ChangeMapping(m2, p(), p(), scale), nil
}

func (r *Runner) execChmap(a []string) string {
	// chmap <h> <m2> <scale> <posBins> <negBins>   (target stores: sparse, so that every bin is visible)
	if len(a) != 5 {
		return "bad-op"
	}
	e, bad := r.getSk(a[0])
	if e == nil {
		return bad
	}
	mh, err := strconv.Atoi(a[1])
	me, ok := r.maps[mh]
	scale, ok2 := parseF(a[2])
	if err != nil || !ok || !ok2 {
		return "bad-op"
	}
	before := r.obsBefore(e)
	var res *ddsketch.DDSketch
	var resx *ddsketch.DDSketchWithExactSummaryStatistics
	okp, msg := guard(func() { res, resx = doChangeMapping(e, me.m, scale, "sparse", 0) })
	if !okp {
		r.oracleFail("panic", "ChangeMapping: "+msg)
		return "panic"
	}
	if after := r.sketchObsQuiet(e); after != before {
		r.oracleFail("chmap-source-changed", fmt.Sprintf("before[%s] after[%s]", before, after))
	}
	gp, gn := storeBinsF(res.GetPositiveValueStore()), storeBinsF(res.GetNegativeValueStore())
	// the bins on the line come from the generator's run; a sparse source iterates in map order, so
	// the float accumulation may differ in the last bits between two runs
	r.chmapOracle(e, me.m, scale, res, resx)
	r.chmapIndependence(e, me.m, scale)
	if !closeFBins(showFBins(gp), a[3]) || !closeFBins(showFBins(gn), a[4]) {
		return "STALE"
	}
	// what is exact in the result: the mapping it carries, the zero weight, the rescaled statistics
	pb := res.IndexMapping.ToProto()
	out := fmt.Sprintf("ok map=%d:%s:%s zero=%s", int(pb.Interpolation), showF(pb.Gamma), showF(pb.IndexOffset), showF(res.GetZeroCount()))
	if resx != nil {
		mn, e1 := resx.GetMinValue()
		mx, e2 := resx.GetMaxValue()
		out += fmt.Sprintf(" count=%s sum=%s min=%s max=%s", showF(resx.GetCount()), showF(resx.GetSum()), showValErr(mn, e1), showValErr(mx, e2))
	}
	return out
}

func (r *Runner) chmapOracle(e *skEntry, m2 mapping.IndexMapping, scale float64, res *ddsketch.DDSketch, resx *ddsketch.DDSketchWithExactSummaryStatistics) {
	src := e.sk()
	m1 := src.IndexMapping
	if !res.IndexMapping.Equals(m2) {
		r.oracleFail("chmap-mapping", "the result does not carry the requested mapping")
	}
	if math.Float64bits(res.GetZeroCount()) != math.Float64bits(src.GetZeroCount()) {
		r.oracleFail("chmap-zero", fmt.Sprintf("zero weight %v -> %v", src.GetZeroCount(), res.GetZeroCount()))
	}
	for _, side := range []struct {
		s, d store.Store
		name string
	}{{src.GetPositiveValueStore(), res.GetPositiveValueStore(), "positive"}, {src.GetNegativeValueStore(), res.GetNegativeValueStore(), "negative"}} {
		sb, db := storeBinsF(side.s), storeBinsF(side.d)
		st, dt := 0.0, 0.0
		for _, b := range sb {
			st += b.w
		}
		for _, b := range db {
			dt += b.w
			if !(b.w > 0) {
				r.oracleFail("chmap-negative-bin", fmt.Sprintf("%s bin %d has weight %v", side.name, b.idx, b.w))
			}
		}
		if math.Abs(st-dt) > delta*st {
			r.oracleFail("chmap-total", fmt.Sprintf("%s weight %v -> %v", side.name, st, dt))
		}
		// weight only goes to target bins that overlap a scaled source bin (up to rounding slivers)
		for _, b := range db {
			lo, hi := m2.LowerBound(b.idx), m2.LowerBound(b.idx+1)
			overl := false
			for _, s := range sb {
				sl, sh := m1.LowerBound(s.idx)*scale, m1.LowerBound(s.idx+1)*scale
				if lo < sh*(1+8*delta) && sl < hi*(1+8*delta) {
					overl = true
					break
				}
			}
			if !overl && b.w > 1e-9*st {
				r.oracleFail("chmap-overlap", fmt.Sprintf("%s target bin %d [%v,%v) holds %v but overlaps no scaled source bin", side.name, b.idx, lo, hi, b.w))
			}
		}
	}
	// identity: equal mapping and scale 1 give an exact copy
	if scale == 1 && m1.Equals(m2) {
		tmp := &skEntry{plain: res, exact: resx, storeKind: "sparse", mh: e.mh}
		if d := r.sameSketch(e, tmp); d != "" && e.storeKind != "low" && e.storeKind != "high" {
			r.oracleFail("chmap-identity", d)
		}
		return
	}
	// exact statistics are rescaled by the factor
	if resx != nil && !e.exact.IsEmpty() {
		mn, _ := e.exact.GetMinValue()
		mx, _ := e.exact.GetMaxValue()
		rmn, _ := resx.GetMinValue()
		rmx, _ := resx.GetMaxValue()
		if rmn != mn*scale || rmx != mx*scale || resx.GetCount() != e.exact.GetCount() {
			r.oracleFail("chmap-stats", fmt.Sprintf("min/max/count (%v,%v,%v) -> (%v,%v,%v) with scale %v", mn, mx, e.exact.GetCount(), rmn, rmx, resx.GetCount(), scale))
		}
		if s, rs := e.exact.GetSum(), resx.GetSum(); math.Abs(rs-s*scale) > 1e-12*math.Abs(s*scale)+1e-300 {
			r.oracleFail("chmap-stats", fmt.Sprintf("sum %v -> %v with scale %v", s, rs, scale))
		}
	}
	// quantiles within the combined accuracy of the scaled source quantile one unit of weight away
	a1, a2 := m1.RelativeAccuracy(), m2.RelativeAccuracy()
	W := src.GetCount()
	if W < 2 || e.storeKind == "low" || e.storeKind == "high" {
		return
	}
	up, dn := (1+a2)/(1-a1)*(1+64*delta), (1-a2)/(1+a1)*(1-64*delta)
	for i := 0; i <= 16; i++ {
		q := float64(i) / 16
		rv, err := res.GetValueAtQuantile(q)
		if err != nil {
			continue
		}
		t := q * (W - 1)
		qlo, qhi := math.Max(t-1.000001, 0)/(W-1), math.Min(t+1.000001, W-1)/(W-1)
		slo, e1 := src.GetValueAtQuantile(qlo)
		shi, e2 := src.GetValueAtQuantile(qhi)
		if e1 != nil || e2 != nil {
			continue
		}
		lo, hi := slo*scale, shi*scale
		// widen by the combined relative error, whatever the signs
		bound := func(x float64, wide bool) float64 {
			if (x >= 0) == wide {
				return x * up
			}
			return x * dn
		}
		if !(bound(lo, false) <= rv && rv <= bound(hi, true)) {
			r.oracleFail("chmap-accuracy", fmt.Sprintf("q=%v: result %v outside [%v, %v] (scaled source quantiles one unit of weight around, alpha1=%v alpha2=%v scale=%v)", q, rv, bound(lo, false), bound(hi, true), a1, a2, scale))
		}
	}
	_ = big.NewInt
}

func closeFBins(x, y string) bool {
	if x == y {
		return true
	}
	xs, ys := strings.Split(x, ","), strings.Split(y, ",")
	if len(xs) != len(ys) {
		return false
	}
	for i := range xs {
		a, b := strings.SplitN(xs[i], ":", 2), strings.SplitN(ys[i], ":", 2)
		if len(a) != 2 || len(b) != 2 || a[0] != b[0] {
			return false
		}
		fa, ok1 := parseF(a[1])
		fb, ok2 := parseF(b[1])
		if !ok1 || !ok2 || math.Abs(fa-fb) > 1e-12*math.Max(math.Abs(fa), math.Abs(fb)) {
			return false
		}
	}
	return true
}

// chmapIndependence (C14, C10): the result of ChangeMapping and its source do not share state —
// mutating either afterwards leaves every observable aspect of the other as it was. Done on
// copies, so the history's own sketches are untouched.
func (r *Runner) chmapIndependence(e *skEntry, m2 mapping.IndexMapping, scale float64) {
	mk := func() *skEntry {
		c := &skEntry{mh: e.mh, storeKind: e.storeKind, n: e.n}
		if e.exact != nil {
			c.exact = e.exact.Copy()
		} else {
			c.plain = e.plain.Copy()
		}
		return c
	}
	mutate := func(x *skEntry) {
		v := 1.5
		if x.exact != nil {
			x.exact.AddWithCount(v, 3)
			x.exact.AddWithCount(-v, 2)
			x.exact.Reweight(2)
		} else {
			x.plain.AddWithCount(v, 3)
			x.plain.AddWithCount(-v, 2)
			x.plain.Reweight(2)
		}
	}
	clear := func(x *skEntry) {
		if x.exact != nil {
			x.exact.Clear()
		} else {
			x.plain.Clear()
		}
	}
	for _, dir := range []string{"result-mutated", "source-mutated"} {
		src := mk()
		// dense target stores: their observations are deterministic (a sparse store sums its
		// non-dyadic weights in map order, which differs from call to call)
		res, resx := doChangeMapping(src, m2, scale, "dense", 0)
		dst := &skEntry{plain: res, exact: resx, storeKind: "dense", mh: -1}
		if scale == 1 && src.sk().IndexMapping.Equals(m2) {
			dst.storeKind = src.storeKind // the identity shortcut returns a copy with the source's stores
		}
		if resx != nil {
			dst.plain = nil
		}
		victim, actor := src, dst
		if dir == "source-mutated" {
			victim, actor = dst, src
		}
		before := r.sketchObsQuiet(victim)
		mutate(actor)
		if after := r.sketchObsQuiet(victim); after != before {
			r.oracleFail("chmap-aliasing", fmt.Sprintf("%s (scale %v): the other sketch changed: before[%s] after[%s]", dir, scale, before, after))
			continue
		}
		clear(actor)
		if after := r.sketchObsQuiet(victim); after != before {
			r.oracleFail("chmap-aliasing", fmt.Sprintf("%s then cleared (scale %v): the other sketch changed: before[%s] after[%s]", dir, scale, before, after))
		}
	}
}
