package main

import (
	"fmt"
	"math"
	"sort"
	"strconv"

	"bytes"
	"github.com/DataDog/sketches-go/ddsketch"
	"github.com/DataDog/sketches-go/ddsketch/mapping"
	"github.com/DataDog/sketches-go/ddsketch/pb/sketchpb"
	"github.com/DataDog/sketches-go/ddsketch/store"
	"google.golang.org/protobuf/proto"
)

func mappingFromAlpha(kind string, alpha float64) (mapping.IndexMapping, error) {
	switch kind {
	case "log":
		return mapping.NewLogarithmicMapping(alpha)
	case "linear":
		return mapping.NewLinearlyInterpolatedMapping(alpha)
	case "cubic":
		return mapping.NewCubicallyInterpolatedMapping(alpha)
	}
	return nil, fmt.Errorf("kind")
}

func (r *Runner) execMapping(cmd string, a []string) string {
	switch cmd {
	case "mpchk":
		if len(a) != 6 {
			return "bad-op"
		}
		g, ok1 := parseF(a[1])
		o, ok2 := parseF(a[2])
		if !ok1 || !ok2 {
			return "bad-op"
		}
		m, err := newMapping(a[0], g, o)
		if err != nil {
			return "bad-op"
		}
		// the answer on the line was produced by the implementation at generation time
		switch a[3] {
		case "idx":
			v, _ := parseF(a[4])
			k, _ := strconv.Atoi(a[5])
			if m.Index(v) != k {
				return "STALE"
			}
		case "lb", "val":
			i, _ := strconv.Atoi(a[4])
			f, _ := parseF(a[5])
			got := m.LowerBound(i)
			if a[3] == "val" {
				got = m.Value(i)
			}
			if math.Float64bits(got) != math.Float64bits(f) {
				return "STALE"
			}
		case "min", "max", "ra":
			f, _ := parseF(a[5])
			got := m.MinIndexableValue()
			if a[3] == "max" {
				got = m.MaxIndexableValue()
			} else if a[3] == "ra" {
				got = m.RelativeAccuracy()
			}
			if math.Float64bits(got) != math.Float64bits(f) {
				return "STALE"
			}
		default:
			return "bad-op"
		}
		return "ok"
	case "mpalpha":
		if len(a) != 4 {
			return "bad-op"
		}
		alpha, _ := parseF(a[1])
		m, err := mappingFromAlpha(a[0], alpha)
		if err != nil {
			return "bad-op"
		}
		pb := m.ToProto()
		g, _ := parseF(a[2])
		o, _ := parseF(a[3])
		if pb.Gamma != g || pb.IndexOffset != o {
			return "STALE"
		}
		// the accuracy the mapping reports equals the one it was built with
		if ra := m.RelativeAccuracy(); math.Abs(ra-alpha) > 1e-9*alpha {
			r.oracleFail("reported-accuracy", fmt.Sprintf("%s mapping built with alpha=%v reports %v", a[0], alpha, ra))
		}
		return "ok"
	case "mscan":
		// mscan <kind> <gamma> <offset> <seed> <n>
		if len(a) != 5 {
			return "bad-op"
		}
		g, _ := parseF(a[1])
		o, _ := parseF(a[2])
		seed, _ := strconv.ParseUint(a[3], 10, 64)
		n, _ := strconv.Atoi(a[4])
		m, err := newMapping(a[0], g, o)
		if err != nil {
			return "bad-op"
		}
		okp, msg := guard(func() { r.scanMapping(a[0], m, g, o, seed, n) })
		if !okp {
			r.oracleFail("panic", "mapping scan: "+msg)
		}
		return "ok"
	case "mapenc":
		// mapenc <kind> <gamma> <offset> <bytes>: every serialized form gives back an equal mapping
		if len(a) != 4 {
			return "bad-op"
		}
		g, _ := parseF(a[1])
		o, _ := parseF(a[2])
		m, err := newMapping(a[0], g, o)
		if err != nil {
			return "bad-op"
		}
		okp, msg := guard(func() { r.mappingForms(a[0], m) })
		if !okp {
			r.oracleFail("panic", "mapping forms: "+msg)
		}
		return "ok"
	case "mkalpha":
		if len(a) != 2 {
			return "bad-op"
		}
		alpha, _ := parseF(a[1])
		_, err := mappingFromAlpha(a[0], alpha)
		_, err2 := ddsketch.NewDefaultDDSketch(alpha)
		want := !(alpha > 0 && alpha < 1)
		if (err != nil) != want && !math.IsNaN(alpha) {
			r.oracleFail("constructor-decision", fmt.Sprintf("%s mapping with accuracy %v: err=%v", a[0], alpha, err))
		}
		if (err2 != nil) != want && !math.IsNaN(alpha) {
			r.oracleFail("constructor-decision", fmt.Sprintf("NewDefaultDDSketch(%v): err=%v", alpha, err2))
		}
		if err != nil {
			return "err"
		}
		return "ok"
	case "mkgamma":
		if len(a) != 3 {
			return "bad-op"
		}
		g, _ := parseF(a[1])
		o, _ := parseF(a[2])
		_, err := newMapping(a[0], g, o)
		if (err != nil) != !(g > 1) && !math.IsNaN(g) {
			r.oracleFail("constructor-decision", fmt.Sprintf("%s mapping with gamma %v: err=%v", a[0], g, err))
		}
		if err != nil {
			return "err"
		}
		return "ok"
	case "mkbin":
		if len(a) != 2 {
			return "bad-op"
		}
		i, _ := strconv.Atoi(a[0])
		c, _ := parseF(a[1])
		_, err := store.NewBin(i, c)
		if (err != nil) != (c < 0) && !math.IsNaN(c) {
			r.oracleFail("constructor-decision", fmt.Sprintf("NewBin(%d, %v): err=%v", i, c, err))
		}
		if err != nil {
			return "err"
		}
		return "ok"
	case "mapeq":
		if len(a) != 6 {
			return "bad-op"
		}
		g1, _ := parseF(a[1])
		o1, _ := parseF(a[2])
		g2, _ := parseF(a[4])
		o2, _ := parseF(a[5])
		m1, e1 := newMapping(a[0], g1, o1)
		m2, e2 := newMapping(a[3], g2, o2)
		if e1 != nil || e2 != nil {
			return "bad-op"
		}
		x, y := m1.Equals(m2), m2.Equals(m1)
		if x != y {
			r.oracleFail("equality-asymmetric", fmt.Sprintf("%s(%v,%v) vs %s(%v,%v): %v / %v", a[0], g1, o1, a[3], g2, o2, x, y))
		}
		if !m1.Equals(m1) || !m2.Equals(m2) {
			r.oracleFail("equality-irreflexive", fmt.Sprintf("%s(%v,%v)", a[0], g1, o1))
		}
		if a[0] != a[3] && x {
			r.oracleFail("equality-across-kinds", fmt.Sprintf("%s equals %s", a[0], a[3]))
		}
		if x && math.Abs(m1.RelativeAccuracy()-m2.RelativeAccuracy()) >= 1e-3 {
			r.oracleFail("equality-different-accuracy", fmt.Sprintf("equal mappings with accuracies %v and %v", m1.RelativeAccuracy(), m2.RelativeAccuracy()))
		}
		if g1 == g2 && o1 == o2 && a[0] == a[3] && !x {
			r.oracleFail("equality-identical", "identical parameters not equal")
		}
		return fmt.Sprintf("%v %v", x, y)
	}
	return "bad-op"
}

func sameMapping(what string, a, b mapping.IndexMapping, probes []float64, r *Runner) {
	if !a.Equals(b) || !b.Equals(a) {
		r.oracleFail("mapping-identity", what+": restored mapping is not equal to the original")
		return
	}
	pa, pbb := a.ToProto(), b.ToProto()
	if math.Float64bits(pa.Gamma) != math.Float64bits(pbb.Gamma) || math.Float64bits(pa.IndexOffset) != math.Float64bits(pbb.IndexOffset) || pa.Interpolation != pbb.Interpolation {
		r.oracleFail("mapping-identity", what+": gamma / offset / kind changed")
	}
	for _, v := range probes {
		if v < a.MinIndexableValue() || v > a.MaxIndexableValue() {
			continue
		}
		i := a.Index(v)
		if b.Index(v) != i || math.Float64bits(a.Value(i)) != math.Float64bits(b.Value(i)) || math.Float64bits(a.LowerBound(i)) != math.Float64bits(b.LowerBound(i)) {
			r.oracleFail("mapping-identity", fmt.Sprintf("%s: value %v maps differently after the round trip", what, v))
			return
		}
	}
}

// mappingForms (C19): binary encoding, protobuf message, streamed protobuf.
func (r *Runner) mappingForms(kind string, m mapping.IndexMapping) {
	probes := []float64{m.MinIndexableValue(), m.MaxIndexableValue(), 1, 2, 0.5, 1e-3, 1e3, 1e-100, 1e100, 3.14159, 12345.678}
	var b []byte
	b = append(b, 0x55)
	m.Encode(&b)
	if b[0] != 0x55 {
		r.oracleFail("mapping-encode-prefix", "Encode clobbered the buffer")
	}
	buf := append([]byte{}, b[1:]...)
	buf = append(buf, 0x07)
	f := buf[0]
	rest := buf[1:]
	// decode through the sketch decoder: flag + payload
	d, err := mapping.Decode(&rest, encFlag(f))
	if err != nil {
		r.oracleFail("mapping-decode", fmt.Sprintf("%s: decoding its own encoding failed: %v", kind, err))
	} else {
		if len(rest) != 1 || rest[0] != 0x07 {
			r.oracleFail("mapping-decode", "decoder did not consume exactly the encoding")
		}
		sameMapping("binary", m, d, probes, r)
	}
	pbm := m.ToProto()
	raw, _ := proto.Marshal(pbm)
	var back sketchpb.IndexMapping
	if err := proto.Unmarshal(raw, &back); err != nil {
		r.oracleFail("mapping-proto", "unmarshal failed")
	} else if d2, err := mapping.FromProto(&back); err != nil {
		r.oracleFail("mapping-proto", fmt.Sprintf("FromProto failed: %v", err))
	} else {
		sameMapping("protobuf", m, d2, probes, r)
	}
	var w bytes.Buffer
	m.EncodeProto(sketchpb.NewIndexMappingBuilder(&w))
	var streamed sketchpb.IndexMapping
	if err := proto.Unmarshal(w.Bytes(), &streamed); err != nil || !proto.Equal(&streamed, pbm) {
		r.oracleFail("mapping-proto-stream", "streamed protobuf differs from the message")
	}
}

// scanMapping (C03): accuracy, monotonicity, bin containment, 32-bit range on sorted probe sets.
// The index is computed as floor(log_gamma(v) + offset) in float64: the sum is rounded to an ulp of its
// larger summand, so a value within that much (in index units) of a bin edge may be assigned the
// neighbouring bin. `slack` is that rounding, converted into a relative distance in value space
// (d v / v = ln(gamma) * d index; the interpolated mappings' slope differs by at most 1/ln 2); for
// ordinary offsets and accuracies it is far below 8*delta and changes nothing.
func indexRoundingSlack(gamma, offset float64, i int) float64 {
	mag := math.Max(math.Abs(offset), math.Max(math.Abs(float64(i)), math.Abs(float64(i)-offset)))
	return 8 * mag * 0x1p-52 * math.Log(gamma) * 1.5
}

func (r *Runner) scanMapping(kind string, m mapping.IndexMapping, gamma, offset float64, seed uint64, n int) {
	rng := NewRng(seed)
	lo, hi := m.MinIndexableValue(), m.MaxIndexableValue()
	alpha := m.RelativeAccuracy()
	var ps []float64
	add := func(v float64) {
		if v >= lo && v <= hi {
			ps = append(ps, v)
		}
	}
	iLo, iHi := m.Index(lo), m.Index(hi)
	for k := 0; k < n; k++ {
		// bin edges ± ulps
		i := iLo + int(rng.U64()%uint64(iHi-iLo+1))
		lb := m.LowerBound(i)
		for _, d := range []int{-16, -4, -3, -2, -1, 0, 1, 2, 3, 4, 16} {
			add(nudge(lb, d))
		}
		// bin bounds are strictly increasing with the index (the lower bound of the next bin is this
		// bin's upper bound: C03 containment, C17 re-binning)
		if i > iLo && i < iHi {
			below, above := m.LowerBound(i-1), m.LowerBound(i+1)
			if !(below < lb && lb < above) {
				r.oracleFail("bounds-monotone", fmt.Sprintf("%s gamma=%v offset=%v: LowerBound(%d..%d) = %v, %v, %v", kind, gamma, offset, i-1, i+1, below, lb, above))
				return
			}
		}
		// log-uniform randoms
		add(math.Exp(math.Log(lo) + rng.Float01()*(math.Log(hi)-math.Log(lo))))
		// binade boundaries
		e := int(math.Floor(math.Log2(lo))) + rng.Intn(int(math.Log2(hi)-math.Log2(lo))+1)
		for _, d := range []int{-2, -1, 0, 1, 2} {
			add(nudge(math.Ldexp(1, e), d))
		}
	}
	for d := 0; d <= 4; d++ {
		add(nudge(lo, d))
		add(nudge(hi, -d))
	}
	// the bins around every power of two (where the interpolated mappings switch octave)
	for e := int(math.Ceil(math.Log2(lo))) + 1; e < int(math.Floor(math.Log2(hi))); e++ {
		i := m.Index(math.Ldexp(1, e))
		for j := i - 2; j <= i+2; j++ {
			if j <= iLo || j >= iHi {
				continue
			}
			a, b := m.LowerBound(j), m.LowerBound(j+1)
			if !(a < b) {
				r.oracleFail("bounds-monotone", fmt.Sprintf("%s gamma=%v offset=%v: LowerBound(%d) = %v but LowerBound(%d) = %v (around 2^%d)", kind, gamma, offset, j, a, j+1, b, e))
				return
			}
			add(nudge(a, 1))
			add(nudge(b, -1))
		}
	}
	sort.Float64s(ps)
	prev := math.MinInt64
	for _, v := range ps {
		i := m.Index(v)
		if i < math.MinInt32 || i > math.MaxInt32 {
			r.oracleFail("index-range", fmt.Sprintf("%s alpha=%v: Index(%v) = %d does not fit in 32 bits", kind, alpha, v, i))
			return
		}
		if i < prev {
			r.oracleFail("index-monotone", fmt.Sprintf("%s alpha=%v: Index decreases at %v (%d after %d)", kind, alpha, v, i, prev))
			return
		}
		prev = i
		val := m.Value(i)
		slack := 8*delta + indexRoundingSlack(gamma, offset, i)
		if !(math.Abs(val-v) <= alpha*v*(1+delta)+v*slack) {
			r.oracleFail("mapping-accuracy", fmt.Sprintf("%s alpha=%v: Value(Index(%v)) = %v, relative error %v", kind, alpha, v, val, math.Abs(val-v)/v))
			return
		}
		lb, ub := m.LowerBound(i), m.LowerBound(i+1)
		if !(lb <= v*(1+slack)) || !(v <= ub*(1+slack)) {
			r.oracleFail("bin-containment", fmt.Sprintf("%s alpha=%v: v=%v index %d but bounds [%v, %v]", kind, alpha, v, i, lb, ub))
			return
		}
	}
	r.stats["mapping-probes"] += len(ps)
}
