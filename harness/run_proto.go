package main

import (
	"bytes"
	"fmt"
	"math"
	"sort"
	"strconv"

	"github.com/DataDog/sketches-go/ddsketch"
	"github.com/DataDog/sketches-go/ddsketch/pb/sketchpb"
	"google.golang.org/protobuf/proto"
)

// protoBytes returns Marshal(ToProto()) and the streamed EncodeProto bytes of a sketch.
func protoBytes(s *ddsketch.DDSketch) ([]byte, []byte, error) {
	m, err := proto.Marshal(s.ToProto())
	if err != nil {
		return nil, nil, err
	}
	var w bytes.Buffer
	s.EncodeProto(&w)
	return m, w.Bytes(), nil
}

func (r *Runner) execProto(cmd string, a []string) string {
	switch cmd {
	case "pbeq":
		if len(a) != 1 {
			return "bad-op"
		}
		e, bad := r.getSk(a[0])
		if e == nil {
			return bad
		}
		okp, msg := guard(func() {
			s := e.sk()
			mem := s.ToProto()
			_, sb, err := protoBytes(s)
			if err != nil {
				r.oracleFail("proto-marshal", err.Error())
				return
			}
			var streamed sketchpb.DDSketch
			if err := proto.Unmarshal(sb, &streamed); err != nil {
				r.oracleFail("proto-stream", fmt.Sprintf("streamed bytes do not unmarshal: %v", err))
			} else if !proto.Equal(&streamed, mem) {
				r.oracleFail("proto-stream", "the streamed message differs from the message built in memory (bit for bit)")
			}
		})
		if !okp {
			return r.poisonSk(e, "protobuf", msg)
		}
		return "ok"
	case "pbchk":
		if len(a) != 3 {
			return "bad-op"
		}
		e, bad := r.getSk(a[0])
		if e == nil {
			return bad
		}
		var out string
		okp, msg := guard(func() { out = r.pbChk(e) })
		if !okp {
			return r.poisonSk(e, "protobuf", msg)
		}
		return out
	case "frompb":
		// frompb <h> <oracleMh|-> <storekind> [N] <bytes>
		if len(a) < 4 {
			return "bad-op"
		}
		id, err := strconv.Atoi(a[0])
		if err != nil {
			return "bad-op"
		}
		omh := -1
		if a[1] != "-" {
			omh, _ = strconv.Atoi(a[1])
		}
		kind, n, rest, ok := parseStoreKind(a[2:])
		if !ok || len(rest) != 1 {
			return "bad-op"
		}
		bs, berr := parseBytes(rest[0])
		if berr != nil {
			return "bad-op"
		}
		var msg sketchpb.DDSketch
		if err := proto.Unmarshal(bs, &msg); err != nil {
			return "err:pbparse"
		}
		var s *ddsketch.DDSketch
		var ferr error
		okp, pm := guard(func() { s, ferr = ddsketch.FromProtoWithStoreProvider(&msg, providerOf(kind, n)) })
		if !okp {
			r.oracleFail("panic", "FromProto: "+pm)
			return "panic"
		}
		if ferr != nil {
			return "err:frompb"
		}
		r.sks[id] = &skEntry{plain: s, mh: omh, storeKind: kind, n: n}
		// bins given sparsely and contiguously add up (whatever the target store kind)
		for _, side := range []struct {
			pb  *sketchpb.Store
			got []binRat
			nm  string
		}{{msg.PositiveValues, storeBins(s.GetPositiveValueStore()), "positive"}, {msg.NegativeValues, storeBins(s.GetNegativeValueStore()), "negative"}} {
			t := NewTruth(clampOf(kind), n)
			if side.pb != nil {
				keys := make([]int, 0, len(side.pb.BinCounts))
				for k := range side.pb.BinCounts {
					keys = append(keys, int(k))
				}
				sort.Ints(keys)
				for _, k := range keys {
					t.Add(k, ratOf(side.pb.BinCounts[int32(k)]))
				}
				for i, c := range side.pb.ContiguousBinCounts {
					t.Add(i+int(side.pb.ContiguousBinIndexOffset), ratOf(c))
				}
			}
			if !sameBins(side.got, t.Bins()) {
				r.oracleFail("proto-bins-add-up", fmt.Sprintf("%s bins rebuilt into %s(%d): got %s, the message holds %s", side.nm, kind, n, showBinsRat(side.got), showBinsRat(t.Bins())))
			}
		}
		if math.Float64bits(s.GetZeroCount()) != math.Float64bits(msg.ZeroCount) {
			r.oracleFail("proto-zero", fmt.Sprintf("zero count %v, message %v", s.GetZeroCount(), msg.ZeroCount))
		}
		return "ok"
	}
	return "bad-op"
}

// pbChk (C09): the streamed bytes unmarshal to a message equal to the in-memory one; rebuilding
// with every store kind gives the same mapping, bins and zero weight, bit for bit.
func (r *Runner) pbChk(e *skEntry) string {
	s := e.sk()
	before := r.obsBefore(e)
	mem := s.ToProto()
	mb, sb, err := protoBytes(s)
	if err != nil {
		r.oracleFail("proto-marshal", err.Error())
		return "ok"
	}
	var streamed sketchpb.DDSketch
	if err := proto.Unmarshal(sb, &streamed); err != nil {
		r.oracleFail("proto-stream", fmt.Sprintf("streamed bytes do not unmarshal: %v", err))
	} else if !proto.Equal(&streamed, mem) {
		r.oracleFail("proto-stream", "the streamed message differs from the message built in memory")
	}
	var back sketchpb.DDSketch
	if err := proto.Unmarshal(mb, &back); err != nil {
		r.oracleFail("proto-marshal", "marshalled bytes do not unmarshal")
		return "ok"
	}
	pos, neg := storeBins(s.GetPositiveValueStore()), storeBins(s.GetNegativeValueStore())
	for _, t := range []struct {
		kind  string
		n     int
		clamp int
	}{{"dense", 0, 0}, {"sparse", 0, 0}, {"pag", 0, 0}, {"low", 4096, 1}, {"high", 8, 2}} {
		d, ferr := ddsketch.FromProtoWithStoreProvider(&back, providerOf(t.kind, t.n))
		if ferr != nil {
			r.oracleFail("proto-roundtrip", fmt.Sprintf("FromProto into %s failed: %v", t.kind, ferr))
			continue
		}
		if !d.IndexMapping.Equals(s.IndexMapping) {
			r.oracleFail("proto-roundtrip", "mapping differs after the protobuf round trip")
		}
		dm, sm := d.IndexMapping.ToProto(), s.IndexMapping.ToProto()
		if math.Float64bits(dm.Gamma) != math.Float64bits(sm.Gamma) || math.Float64bits(dm.IndexOffset) != math.Float64bits(sm.IndexOffset) || dm.Interpolation != sm.Interpolation {
			r.oracleFail("proto-roundtrip", "mapping identity bits differ after the protobuf round trip")
		}
		if math.Float64bits(d.GetZeroCount()) != math.Float64bits(s.GetZeroCount()) {
			r.oracleFail("proto-roundtrip", fmt.Sprintf("zero count %v -> %v", s.GetZeroCount(), d.GetZeroCount()))
		}
		wp, wn := truthOf(pos, t.clamp, t.n).Bins(), truthOf(neg, t.clamp, t.n).Bins()
		if gp := storeBins(d.GetPositiveValueStore()); !sameBins(gp, wp) {
			r.oracleFail("proto-roundtrip", fmt.Sprintf("positive bins into %s: got %s want %s", t.kind, showBinsRat(gp), showBinsRat(wp)))
		}
		if gn := storeBins(d.GetNegativeValueStore()); !sameBins(gn, wn) {
			r.oracleFail("proto-roundtrip", fmt.Sprintf("negative bins into %s: got %s want %s", t.kind, showBinsRat(gn), showBinsRat(wn)))
		}
	}
	if after := r.sketchObsQuiet(e); after != before {
		r.oracleFail("proto-not-pure", "converting to protobuf changed the sketch")
	}
	return "ok"
}
