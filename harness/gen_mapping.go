package main

import (
	"math"
)

type mparams struct {
	kind       string
	gamma, off float64
	fromAlpha  bool
	alpha      float64
}

func (g *Gen) randomMapping() (mparams, bool) {
	r := g.rng
	kind := []string{"log", "linear", "cubic"}[r.Intn(3)]
	alpha := alphaGrid[r.Intn(len(alphaGrid))]
	if r.Bool(30) {
		alpha = math.Exp(math.Log(1e-6) + r.Float01()*(math.Log(0.99)-math.Log(1e-6)))
	}
	m, err := mappingFromAlpha(kind, alpha)
	if err != nil {
		return mparams{}, false
	}
	pb := m.ToProto()
	p := mparams{kind: kind, gamma: pb.Gamma, off: pb.IndexOffset, fromAlpha: true, alpha: alpha}
	if r.Bool(6) {
		// the int32 limit of the index, not the float64 range, bounds the indexable values: a fine mapping
		// with a huge offset
		a := 1e-6 * (1 + 2*r.Float01())
		if m2, err := mappingFromAlpha(kind, a); err == nil {
			p.gamma = m2.ToProto().Gamma
			p.off = []float64{2e9, -2e9, 1.9e9 + 0.5, -1.9e9 - 0.5}[r.Intn(4)]
			p.fromAlpha = false
			return p, true
		}
	}
	if r.Bool(15) {
		// a whole number n of bins per octave (gamma = 2^(1/n)): the bin edges of the interpolated mappings
		// fall on the powers of two, where the reconstruction of a float from exponent and significand
		// is most sensitive to rounding
		n := r.Range(2, 4000)
		p.gamma = math.Pow(2, 1/float64(n))
		p.off = []float64{0, 0, float64(n), -float64(n), 1 / math.Log2(p.gamma), 0.5}[r.Intn(6)]
		p.fromAlpha = false
		return p, true
	}
	if r.Bool(40) { // rebuilt from the base and an arbitrary offset, as decoders do
		p.off = []float64{0, 0.5, -0.5, 1 / math.Log2(pb.Gamma), 1e3, -1e3, 1e6, -1e6, 2e9, -2e9, 123.456}[r.Intn(11)]
		p.fromAlpha = false
	}
	return p, true
}

// genMappingHistory (C03): the generic formulas at Float vs the implementation, and the scans of
// the direct oracle.
func (g *Gen) genMappingHistory() {
	r := g.rng
	g.beginHist("C03")
	p, ok := g.randomMapping()
	if !ok {
		return
	}
	m, err := newMapping(p.kind, p.gamma, p.off)
	if err != nil {
		return
	}
	g.stats["mapping:"+p.kind]++
	pre := func() string { return p.kind + " " + hexF(p.gamma) + " " + hexF(p.off) }
	if p.fromAlpha {
		g.emit("mpalpha %s %s %s %s", p.kind, hexF(p.alpha), hexF(p.gamma), hexF(p.off))
	}
	g.emit("mpchk %s min - %s", pre(), hexF(m.MinIndexableValue()))
	g.emit("mpchk %s max - %s", pre(), hexF(m.MaxIndexableValue()))
	g.emit("mpchk %s ra - %s", pre(), hexF(m.RelativeAccuracy()))
	lo, hi := m.MinIndexableValue(), m.MaxIndexableValue()
	iLo, iHi := m.Index(lo), m.Index(hi)
	probes := 40
	if g.thorough() {
		probes = 400
	}
	for k := 0; k < probes; k++ {
		i := iLo + int(r.U64()%uint64(iHi-iLo+1))
		if i < iHi {
			g.emit("mpchk %s lb %d %s", pre(), i, hexF(m.LowerBound(i)))
			g.emit("mpchk %s val %d %s", pre(), i, hexF(m.Value(i)))
		}
		var v float64
		switch r.Intn(3) {
		case 0:
			v = nudge(m.LowerBound(i), r.Range(-3, 3))
		case 1:
			v = math.Exp(math.Log(lo) + r.Float01()*(math.Log(hi)-math.Log(lo)))
		default:
			v = nudge(math.Ldexp(1, int(math.Log2(lo))+r.Intn(int(math.Log2(hi)-math.Log2(lo))+1)), r.Range(-2, 2))
		}
		if v >= lo && v <= hi {
			g.emit("mpchk %s idx %s %d", pre(), hexF(v), m.Index(v))
		}
	}
	// the bins around a few powers of two
	for k := 0; k < 8; k++ {
		e := int(math.Ceil(math.Log2(lo))) + 1 + r.Intn(int(math.Log2(hi)-math.Log2(lo))-1)
		i := m.Index(math.Ldexp(1, e)) + r.Range(-1, 1)
		if i > iLo && i < iHi {
			g.emit("mpchk %s lb %d %s", pre(), i, hexF(m.LowerBound(i)))
		}
	}
	g.emit("mscan %s %d %d", pre(), r.U64()>>1, probes*5)
}

// genMappingIdentityHistory (C19): serialized forms and the equality relation.
func (g *Gen) genMappingIdentityHistory() {
	r := g.rng
	g.beginHist("C19")
	var ms []mparams
	for len(ms) < 5 {
		if p, ok := g.randomMapping(); ok {
			ms = append(ms, p)
		}
	}
	// near-duplicates: same kind, accuracies a hair / clearly apart
	base := ms[0]
	for _, f := range []float64{1 + 1e-15, 1 + 1e-13, 1 + 1e-11, 1 + 1e-9, 1.002} {
		q := base
		q.gamma = base.gamma * f
		q.fromAlpha = false
		ms = append(ms, q)
	}
	for _, d := range []float64{1e-14, 1e-10, 0.5} {
		q := base
		q.off = base.off + d
		q.fromAlpha = false
		ms = append(ms, q)
	}
	// the other kinds with exactly the same base and offset (as a decoder could rebuild them): never equal
	for _, k := range []string{"log", "linear", "cubic"} {
		if k != base.kind {
			q := base
			q.kind = k
			q.fromAlpha = false
			ms = append(ms, q)
		}
	}
	if base.fromAlpha && base.alpha+0.0015 < 0.99 {
		if m2, err := mappingFromAlpha(base.kind, base.alpha+0.0015); err == nil {
			pb := m2.ToProto()
			ms = append(ms, mparams{kind: base.kind, gamma: pb.Gamma, off: pb.IndexOffset})
		}
	}
	for _, p := range ms {
		m, err := newMapping(p.kind, p.gamma, p.off)
		if err != nil {
			continue
		}
		var b []byte
		m.Encode(&b)
		g.emit("mapenc %s %s %s %s", p.kind, hexF(p.gamma), hexF(p.off), showBytes(b))
		if p.fromAlpha {
			g.emit("mpalpha %s %s %s %s", p.kind, hexF(p.alpha), hexF(p.gamma), hexF(p.off))
		}
	}
	for i := range ms {
		for j := range ms {
			if r.Bool(60) || i == j {
				g.emit("mapeq %s %s %s %s %s %s", ms[i].kind, hexF(ms[i].gamma), hexF(ms[i].off), ms[j].kind, hexF(ms[j].gamma), hexF(ms[j].off))
			}
		}
	}
}
