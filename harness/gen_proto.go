package main

import (
	"fmt"
	"math"

	"github.com/DataDog/sketches-go/ddsketch/pb/sketchpb"
	"google.golang.org/protobuf/proto"
)

// genProtoHistory (C09): ToProto/Marshal vs the streaming writer, rebuilding with every store kind,
// hand-built messages mixing binCounts and contiguousBinCounts.
func (g *Gen) genProtoHistory() {
	r := g.rng
	sg := g.newSkGen("C09")
	g.beginHist("C09")
	sg.sh.Exec(fmt.Sprintf("#hist %d", g.hist))
	sg.pickMapping()
	if sg.span > 1<<9 {
		sg.span = 1 << 9 // dense stores put every bin of the window on the wire
	}
	if r.Bool(15) {
		// bins holding BOTH buffered unit entries and a page weight that is not a short dyadic (1/3, 0.0025, a full
		// mantissa): adding the units one by one and adding their number round differently; only the direct oracle
		// follows such sums (seeded change C09g)
		sg.line("K 1 1 pag")
		for j, n := 0, r.Range(1, 4); j < n; j++ {
			v := sg.nextValue()
			w := []float64{1.0 / 3, 0.0025, 2.0 / 3, 0.1, float64(r.U64()>>12) / (1 << 51)}[r.Intn(5)]
			units := r.Range(2, 5)
			pos := r.Intn(units + 1)
			for u := 0; u <= units; u++ {
				if u == pos {
					sg.add(1, v, w)
				}
				if u < units {
					sg.add(1, v, 1)
				}
			}
		}
		sg.line("pbeq 1")
		g.stats["mixed-unit-and-fractional-bins"]++
		return
	}
	sg.line("K 1 1 %s", sg.storeSpec(allKinds))
	sg.fillSketch(1, r.Range(0, 40), 55)
	if r.Bool(20) {
		sg.line("clear 1")
		sg.fillSketch(1, r.Range(0, 5), 55)
	}
	e := sg.sh.sks[1]
	if e == nil || e.poisoned {
		return
	}
	var mb, sb []byte
	okp, _ := guard(func() { mb, sb, _ = protoBytes(e.sk()) })
	if !okp {
		sg.line("xpanic 1 proto")
		return
	}
	sg.ensureValues(1)
	sg.line("pbchk 1 %s %s", showBytes(mb), showBytes(sb))
	// rebuild from the streamed bytes into a random store kind
	spec := sg.storeSpec(allKinds)
	if sg.line("frompb 2 1 %s %s", spec, showBytes(sb)) == "ok" {
		sg.ensureValues(2)
		sg.obs(2)
		sg.queries(2, 4)
	}
	sg.obs(1)
	if r.Bool(20) {
		// the sketch's mapping object is REPLACED by a decoded mapping that is equal within the tolerance of Equals
		// but not bit for bit (gamma one ulp away): both protobuf forms must carry the mapping the sketch now has
		// (round 11, seeded change C09h cached the mapping message of the first ToProto)
		pb0 := sg.m.ToProto()
		g2 := math.Nextafter(pb0.Gamma, []float64{2, 1}[r.Intn(2)])
		if m2, err := newMapping(sg.mkind, g2, pb0.IndexOffset); err == nil && m2.Equals(sg.m) {
			sg.line("M 2 %s %s %s %s %s %s", sg.mkind, hexF(g2), hexF(pb0.IndexOffset), hexF(m2.MinIndexableValue()), hexF(m2.MaxIndexableValue()), hexF(m2.RelativeAccuracy()))
			sg.line("K 7 2 sparse")
			sg.add(7, 0, float64(r.Range(1, 3)))
			if bs, ok := sg.bytesOf(7, false); ok {
				if sg.line("decm 1 %s", showBytes(bs)) == "ok" {
					if e := sg.sh.sks[1]; e != nil && !e.poisoned {
						var mb2, sb2 []byte
						if okp, _ := guard(func() { mb2, sb2, _ = protoBytes(e.sk()) }); okp {
							sg.line("pbchk 1 %s %s", showBytes(mb2), showBytes(sb2))
							sg.line("pbeq 1")
							sg.encchk(1, false)
							g.stats["mapping-replaced-by-decode"]++
						}
					}
				}
			}
			return
		}
	}
	// a hand-built message giving bins both sparsely and contiguously: they add up
	pbm := sg.m.ToProto()
	base := sg.center
	msg := &sketchpb.DDSketch{Mapping: pbm, ZeroCount: float64(r.Range(0, 3)),
		PositiveValues: &sketchpb.Store{BinCounts: map[int32]float64{}, ContiguousBinIndexOffset: int32(base + r.Range(-5, 5))},
		NegativeValues: &sketchpb.Store{BinCounts: map[int32]float64{}}}
	for i := 0; i < r.Range(0, 6); i++ {
		msg.PositiveValues.BinCounts[int32(base+r.Range(-8, 8))] = float64(r.Range(1, 9)) / 4
		msg.NegativeValues.BinCounts[int32(base+r.Range(-8, 8))] = float64(r.Range(1, 5))
	}
	for i := 0; i < r.Range(0, 8); i++ {
		msg.PositiveValues.ContiguousBinCounts = append(msg.PositiveValues.ContiguousBinCounts, float64(r.Range(0, 6))/2)
	}
	if raw, err := proto.Marshal(msg); err == nil {
		if sg.line("frompb 3 1 %s %s", sg.storeSpec(allKinds), showBytes(raw)) == "ok" {
			sg.ensureValues(3)
			sg.obs(3)
		}
	}
}
