package main

import (
	"fmt"
	"math"

	enc "github.com/DataDog/sketches-go/ddsketch/encoding"
)

// fillSketch adds a few values to sketch h (any store kind / variant).
func (sg *skGen) fillSketch(h int, n int, unitPct int) {
	for i := 0; i < n; i++ {
		sg.add(h, sg.nextValue(), sg.weight(unitPct))
	}
}

func (sg *skGen) bytesOf(h int, omit bool) ([]byte, bool) {
	e, ok := sg.sh.sks[h]
	if !ok || e.poisoned {
		return nil, false
	}
	var bs []byte
	okp, _ := guard(func() { bs = encodeBytes(e, omit) })
	if !okp {
		sg.line("xpanic %d encode", h)
	}
	return bs, okp
}

func (sg *skGen) isExact(h int) bool {
	e, ok := sg.sh.sks[h]
	return ok && e.exact != nil
}

// fillOutliers adds n unit-weight values falling on n distinct pages of a paginated store.
func (sg *skGen) fillOutliers(h int, n int) {
	m := sg.m
	lo, hi := m.Index(m.MinIndexableValue()*1.0001)+64, m.Index(m.MaxIndexableValue()*0.9999)-64
	pages := (hi - lo) / 32
	if pages < 8 {
		sg.fillSketch(h, 10, 100)
		return
	}
	if n > pages {
		n = pages
	}
	start := lo
	if pages > n {
		// stay around the window centre when there is room
		c := sg.center - 16*n
		if c > lo && c+32*n < hi {
			start = c
		} else {
			start = lo + 32*sg.g.rng.Intn(pages-n)
		}
	}
	perm := sg.g.rng
	for k := 0; k < n; k++ {
		idx := start + 32*k + perm.Intn(32)
		v := nudge(m.LowerBound(idx), 3)
		if perm.Bool(20) {
			v = -v
		}
		sg.add(h, v, 1)
	}
}

// dec emits a decode of `bs` into a new sketch h2 of a random store kind.
func (sg *skGen) dec(h2 int, providedMh string, oracleMh int, spec string, exact bool, bs []byte) string {
	x := ""
	if exact {
		x = " x"
	}
	return sg.line("dec %d %s %d %s%s %s", h2, providedMh, oracleMh, spec, x, showBytes(bs))
}

// genRoundTripHistory (C06): encode / decode into every store kind, decode-merge, concatenations.
func (g *Gen) genRoundTripHistory() {
	r := g.rng
	sg := g.newSkGen("C06")
	g.beginHist("C06")
	sg.sh.Exec(fmt.Sprintf("#hist %d", g.hist))
	sg.pickMapping()
	x := ""
	exact := r.Bool(30)
	if exact {
		x = " x"
	}
	if r.Bool(20) {
		g.genFineRoundTrip(sg, exact || r.Bool(40))
		return
	}
	if r.Bool(12) {
		// a source (dense family, sparse, paginated) holding a few far-apart bins (the encoder then prefers the index-delta layout)
		// with fractional weights; in half of the cases the weights add up to the number of bins, as integer
		// unit weights would (seeded change C06e tested the total instead of the bins)
		// (round 11, C06f: the same slip in the sparse store's encoder — any store kind may be the source)
		sg.line("K 1 1 %s%s", []string{"dense", "low 64", "high 64", "low 1024", "sparse", "sparse", "pag", "sparse"}[r.Intn(8)], x)
		shapes := [][]float64{{0.5, 1.5}, {0.25, 0.25, 2.5}, {0.75, 1.25}, {0.5, 0.5, 0.5, 2.5}, {1.5, 2.5}, {0.5, 3}}
		ws := shapes[r.Intn(len(shapes))]
		m := sg.m
		i0 := sg.center - sg.span
		for j, w := range ws {
			i := i0 + j*(2*sg.span)/len(ws) + r.Range(0, 2)
			sg.add(1, (m.LowerBound(i)+m.LowerBound(i+1))/2, w)
		}
		g.stats["far-apart-fractional-bins"]++
	} else if r.Bool(25) {
		sg.line("K 1 1 pag%s", x)
		sg.fillSketch(1, r.Range(1, 40), 100) // unit weights: buffered entries, encoded as index deltas
	} else {
		sg.line("K 1 1 %s%s", sg.storeSpec(allKinds), x)
		sg.fillSketch(1, r.Range(0, 40), 60)
	}
	if r.Bool(20) {
		sg.line("rew 1 %s", hexF([]float64{0.5, 2, 0.25, 3}[r.Intn(4)]))
	}
	omit := r.Bool(50)
	sg.ensureValues(1)
	sg.encchk(1, omit)
	bs, ok := sg.bytesOf(1, omit)
	if !ok {
		return
	}
	prov := "-"
	if omit {
		prov = "1"
	}
	// decode into a random target kind
	spec := sg.storeSpec(allKinds)
	if sg.dec(2, prov, 1, spec, exact, bs) == "ok" {
		sg.ensureValues(2)
		sg.obs(2)
		if e2 := sg.sh.sks[2]; e2 != nil && (e2.storeKind == "dense" || e2.storeKind == "sparse" || e2.storeKind == "pag") {
			if e1 := sg.sh.sks[1]; e1.storeKind != "low" && e1.storeKind != "high" {
				sg.line("same 1 2")
			}
		}
		sg.queries(2, 6)
	}
	// decoding into a non-empty sketch is merging
	if r.Bool(30) {
		// a paginated receiver whose buffer holds many unit entries that compaction cannot move to
		// pages (one per page): the buffer is then longer than its compaction trigger
		sg.line("K 3 1 pag%s", x)
		sg.fillOutliers(3, r.Range(60, 320))
	} else {
		sg.line("K 3 1 %s%s", sg.storeSpec(nonCollapsing), x)
		sg.fillSketch(3, r.Range(0, 15), 70)
	}
	sg.line("copy 4 3")
	sg.line("decm 3 %s", showBytes(bs))
	sg.line("merge 4 1")
	sg.ensureValues(3)
	sg.ensureValues(4)
	if e1 := sg.sh.sks[1]; e1.storeKind != "low" && e1.storeKind != "high" {
		sg.line("same 3 4")
	}
	sg.obs(3)
	// a concatenation of encodings decodes to the merge of the encoded sketches
	sg.line("K 5 1 %s%s", sg.storeSpec(allKinds), x)
	sg.fillSketch(5, r.Range(0, 20), 60)
	omit5 := r.Bool(50)
	bs5, ok5 := sg.bytesOf(5, omit5)
	if ok5 {
		cat := append(append([]byte{}, bs...), bs5...)
		if r.Bool(30) {
			cat = append(cat, bs...)
		}
		// the caller supplies no mapping when some part of the concatenation embeds it — wherever that
		// part stands (blocks may come in any order)
		prov6 := "1"
		if (!omit || !omit5) && r.Bool(60) {
			prov6 = "-"
		}
		sg.dec(6, prov6, 1, sg.storeSpec(nonCollapsing), exact, cat)
		sg.ensureValues(6)
		sg.obs(6)
	}
	// the source is unchanged by all this
	sg.obs(1)
}

// ---- grammar-generated streams (C07 ii)

type blockGen struct {
	big    bool
	sg     *skGen
	out    []byte
	base   int
	spread int
}

func (b *blockGen) flag(typ, sub byte) { b.out = append(b.out, typ|sub<<2) }

func (b *blockGen) wcount() float64 {
	r := b.sg.g.rng
	switch r.Pick(50, 25, 15, 10) {
	case 0:
		return 1
	case 1:
		return float64(r.Range(0, 9))
	case 2:
		return float64(r.Range(1, 4096)) / 1024
	default:
		return 0
	}
}

func (b *blockGen) binsBlock(side byte) {
	r := b.sg.g.rng
	n := r.Range(0, 12)
	if b.big && r.Bool(60) {
		// many unit-weight bins one page apart: fills the buffer of a paginated target beyond its trigger
		n = r.Range(60, 260)
		layout := byte(1)
		if r.Bool(50) {
			layout = 2
		}
		b.flag(side, layout)
		enc.EncodeUvarint64(&b.out, uint64(n))
		idx := 0
		for i := 0; i < n; i++ {
			next := b.base - 16*n + 32*i + r.Intn(32)
			enc.EncodeVarint64(&b.out, int64(next-idx))
			if layout == 1 {
				enc.EncodeVarfloat64(&b.out, 1)
			}
			idx = next
		}
		return
	}
	switch r.Intn(3) {
	case 0: // index deltas and counts
		b.flag(side, 1)
		enc.EncodeUvarint64(&b.out, uint64(n))
		idx := 0
		for i := 0; i < n; i++ {
			next := b.base + r.Range(-b.spread, b.spread)
			enc.EncodeVarint64(&b.out, int64(next-idx))
			enc.EncodeVarfloat64(&b.out, b.wcount())
			idx = next
		}
	case 1: // index deltas (unit counts)
		b.flag(side, 2)
		enc.EncodeUvarint64(&b.out, uint64(n))
		idx := 0
		for i := 0; i < n; i++ {
			next := b.base + r.Range(-b.spread, b.spread)
			if i > 0 && r.Bool(20) {
				next = idx // repeated index
			}
			enc.EncodeVarint64(&b.out, int64(next-idx))
			idx = next
		}
	default: // contiguous counts, any stride
		b.flag(side, 3)
		stride := []int{1, 1, -1, 0, 2, -3, 37, 64, -64}[r.Intn(9)]
		if (stride > 3 || stride < -3) && b.spread < 200 {
			stride = 1
		}
		enc.EncodeUvarint64(&b.out, uint64(n))
		enc.EncodeVarint64(&b.out, int64(b.base+r.Range(-b.spread/2, b.spread/2)))
		enc.EncodeVarint64(&b.out, int64(stride))
		for i := 0; i < n; i++ {
			enc.EncodeVarfloat64(&b.out, b.wcount())
		}
	}
}

func (b *blockGen) mappingBlock(kind string, gamma, off float64) {
	sub := map[string]byte{"log": 0, "linear": 1, "cubic": 3}[kind]
	b.flag(2, sub)
	enc.EncodeFloat64LE(&b.out, gamma)
	enc.EncodeFloat64LE(&b.out, off)
}

// genGrammarHistory (C07): well-formed streams generated from the documented grammar, in any block
// order, decoded into each store kind.
// genWideStrideHistory (C07 ii): two bins more than 2^31 indexes apart in one delta-encoded block (the
// difference of two int32 indexes is a 33-bit quantity; the format carries it as a varint64). Needs a
// very fine mapping for such indexes to be indexable; decoded into sparse and collapsing targets (a
// dense or paginated target would allocate gigabytes), paginated too when every weight is 1.
func (g *Gen) genWideStrideHistory() {
	r := g.rng
	sg := g.newSkGen("C07")
	g.beginHist("C07")
	sg.sh.Exec(fmt.Sprintf("#hist %d", g.hist))
	sg.mkind = "log"
	sg.mh = 1
	sg.m = sg.newMappingHandle(1, "log", 2e-7, false)
	pb := sg.m.ToProto()
	lo, hi := sg.m.Index(sg.m.MinIndexableValue()*1.0001), sg.m.Index(sg.m.MaxIndexableValue()*0.9999)
	a, b := lo+r.Range(1000, 100000), hi-r.Range(1000, 100000)
	if r.Bool(50) {
		a, b = b, a // a wide negative stride
	}
	bg := &blockGen{sg: sg, base: 0, spread: 1}
	embed := r.Bool(60)
	if embed {
		bg.mappingBlock("log", pb.Gamma, pb.IndexOffset)
	}
	unit := r.Bool(50)
	side := byte(1)
	if r.Bool(30) {
		side = 3
	}
	mid := r.Range(-1000, 1000)
	idxs := []int{a, b}
	if r.Bool(50) {
		idxs = []int{a, mid, b}
	}
	if unit {
		bg.flag(side, 2)
	} else {
		bg.flag(side, 1)
	}
	enc.EncodeUvarint64(&bg.out, uint64(len(idxs)))
	prev := 0
	for _, i := range idxs {
		enc.EncodeVarint64(&bg.out, int64(i-prev))
		if !unit {
			enc.EncodeVarfloat64(&bg.out, float64(r.Range(1, 9))/2)
		}
		prev = i
	}
	prov := "1"
	if embed && r.Bool(60) {
		prov = "-"
	}
	kinds := []string{"sparse", "low", "high", "sparse"}
	if unit {
		kinds = append(kinds, "pag")
	}
	for t := 0; t < 3; t++ {
		if sg.dec(2+t, prov, 1, sg.storeSpec(kinds), false, bg.out) == "ok" {
			sg.ensureValues(2 + t)
			sg.obs(2 + t)
		}
	}
}

func (g *Gen) genGrammarHistory() {
	r := g.rng
	if r.Bool(6) {
		g.genWideStrideHistory()
		return
	}
	sg := g.newSkGen("C07")
	g.beginHist("C07")
	sg.sh.Exec(fmt.Sprintf("#hist %d", g.hist))
	sg.pickMapping()
	pb := sg.m.ToProto()
	lo, hi := sg.m.Index(sg.m.MinIndexableValue()*1.0001), sg.m.Index(sg.m.MaxIndexableValue()*0.9999)
	base := sg.center
	spread := 200
	if hi-lo < 2400 {
		// few bins (coarse accuracy): stay in the middle, small strides only
		base = (lo + hi) / 2
		spread = (hi-lo)/2 - 40
		if spread < 1 {
			spread = 1
		}
		if spread > 199 {
			spread = 199
		}
	} else {
		if base < lo+1000 {
			base = lo + 1000
		}
		if base > hi-1000 {
			base = hi - 1000
		}
	}
	bg := &blockGen{sg: sg, base: base, spread: spread}
	bg.big = hi-lo > 40000 && base-5000 > lo && base+5000 < hi && r.Bool(25)
	exact := r.Bool(25)
	embed := r.Bool(60)
	nb := r.Range(0, 7)
	mapAt := r.Intn(nb + 1)
	hasStats := false
	for i := 0; i <= nb; i++ {
		if embed && i == mapAt {
			bg.mappingBlock(sg.mkind, pb.Gamma, pb.IndexOffset)
			if r.Bool(15) { // a repeated, equal mapping block is fine
				bg.mappingBlock(sg.mkind, pb.Gamma, pb.IndexOffset)
			}
		}
		if i == nb {
			break
		}
		switch r.Pick(40, 30, 15, 15) {
		case 0:
			bg.binsBlock(1)
		case 1:
			bg.binsBlock(3)
		case 2:
			bg.flag(0, 1)
			enc.EncodeVarfloat64(&bg.out, bg.wcount())
		default: // exact summary statistics blocks (ignored by the plain decoder)
			hasStats = true
			switch r.Intn(4) {
			case 0:
				bg.flag(0, 0x28)
				enc.EncodeVarfloat64(&bg.out, float64(r.Range(1, 50)))
			case 1:
				bg.flag(0, 0x21)
				enc.EncodeFloat64LE(&bg.out, float64(r.Range(-100, 100)))
			case 2:
				bg.flag(0, 0x22)
				enc.EncodeFloat64LE(&bg.out, -float64(r.Range(0, 100)))
			default:
				bg.flag(0, 0x23)
				enc.EncodeFloat64LE(&bg.out, float64(r.Range(0, 100)))
			}
		}
	}
	_ = hasStats
	prov := "1"
	if embed && r.Bool(60) {
		prov = "-"
	}
	for t := 0; t < 3; t++ {
		spec := sg.storeSpec(allKinds)
		if sg.dec(2+t, prov, 1, spec, exact, bg.out) == "ok" {
			sg.ensureValues(2 + t)
			sg.obs(2 + t)
		}
	}
}

// genTruncationHistory (C08): every cut of a valid encoding, undefined flags at block boundaries,
// mapping mismatches, missing mapping.
func (g *Gen) genTruncationHistory() {
	r := g.rng
	sg := g.newSkGen("C08")
	g.beginHist("C08")
	sg.sh.Exec(fmt.Sprintf("#hist %d", g.hist))
	sg.pickMapping()
	exact := r.Bool(25)
	x := ""
	if exact {
		x = " x"
	}
	srcSpec := sg.storeSpec(allKinds)
	sg.line("K 1 1 %s%s", srcSpec, x)
	unitPct := 60
	if r.Bool(30) {
		unitPct = 100
	}
	sg.fillSketch(1, r.Range(1, 25), unitPct)
	crafted := exact && r.Bool(50)
	if crafted {
		// statistics whose little-endian bytes start like a well-formed block (04 02 = a zero-count block):
		// a decoder that loses the end-of-input error inside a float64 payload then "succeeds" on the left-over
		// bytes (seeded change C08e)
		// The crafted values stay inside the history's index window: they are the current exact extremes with
		// their low 24 mantissa bits replaced (a relative change of 2^-28, far below any alpha) and pushed outwards
		// so that they ARE the new minimum / maximum. (Until round 12 they were 1+e, 65536+e, -(1+e) whatever the
		// window: with a fine mapping whose window sits at the top of the range the cuts were then decoded into
		// dense targets spanning 3.6e8 bins — minutes and 20 GB on both sides, found by an unchanged-tree run.)
		lo := []uint64{0x0204, 0x020400, 0x0204, 0x0104}[r.Intn(4)]
		if e := sg.sh.sks[1]; e != nil && e.exact != nil && !e.poisoned {
			craft := func(v float64, outwardsUp bool) (float64, bool) {
				if v == 0 || math.IsNaN(v) || math.IsInf(v, 0) {
					return 0, false
				}
				b := math.Float64bits(math.Abs(v))&^0xFFFFFF | lo
				grow := outwardsUp == (v > 0) // the magnitude must not shrink (grow) or must not grow
				if w := math.Float64frombits(b); grow && w < math.Abs(v) {
					b += 1 << 24
				} else if !grow && w > math.Abs(v) {
					b -= 1 << 24
				}
				w := math.Copysign(math.Float64frombits(b), v)
				if a := math.Abs(w); a < sg.m.MinIndexableValue()*1.001 || a > sg.m.MaxIndexableValue()*0.999 {
					return 0, false
				}
				return w, true
			}
			if mx, err := e.exact.GetMaxValue(); err == nil && r.Bool(80) {
				if w, ok := craft(mx, true); ok {
					sg.add(1, w, 1)
				}
			}
			if mn, err := e.exact.GetMinValue(); err == nil && r.Bool(80) {
				if w, ok := craft(mn, false); ok {
					sg.add(1, w, 1)
				}
			}
			if r.Bool(50) { // the sum block: a value whose own bytes carry the pattern does not control the sum; keep one anyway
				if w, ok := craft(sg.nextValue(), true); ok {
					sg.add(1, w, 1)
				}
			}
		}
		g.stats["crafted-statistics"]++
	}
	omit := r.Bool(30)
	bs, ok := sg.bytesOf(1, omit)
	if !ok {
		return
	}
	prov := "-"
	if omit {
		prov = "1"
	}
	doc, _ := docParse(bs)
	if exact {
		// the documented cross-variant pairing: the plain decoder on the encoding of an exact-summary sketch, the
		// mapping supplied by the caller; EVERY cut of the leading statistics blocks
		for k := 0; k <= len(bs) && k <= 40; k++ {
			if sg.dec(9, "1", 1, []string{"sparse", "dense", "pag"}[r.Intn(3)], false, bs[:k]) == "ok" {
				sg.ensureValues(9)
				sg.obs(9)
			}
			g.stats["cuts:plain-decoder-on-exact"]++
		}
	}
	isBoundary := map[int]bool{}
	for _, b := range doc.boundary {
		isBoundary[b] = true
	}
	// every truncation point (thorough) / every boundary and a sample of inner cuts (quick)
	h := 10
	for k := 0; k <= len(bs); k++ {
		if !g.thorough() && !isBoundary[k] && !isBoundary[k+1] && !isBoundary[k-1] && !r.Bool(25) {
			continue
		}
		// two consumers per cut: a random kind, and the producer's own kind (the same-kind decoders
		// are the specialised code paths)
		specs := []string{sg.storeSpec(allKinds), srcSpec}
		for _, spec := range specs {
			if sg.dec(h, prov, 1, spec, exact, bs[:k]) == "ok" {
				sg.ensureValues(h)
				sg.obs(h)
			}
		}
		g.stats["cuts"]++
		if isBoundary[k] {
			g.stats["cuts:boundary"]++
		}
	}
	// an undefined flag substituted at a block boundary
	undefined := []byte{0x00, 0x08, 0x0c, 0x10, 0x90, 0xfc, 0x11, 0x13, 0x01, 0x03, 0x0a, 0x12, 0x16, 0xfe, 0x15, 0xff, 0x41}
	for _, b := range doc.boundary {
		if b >= len(bs) {
			continue
		}
		mut := append([]byte{}, bs...)
		mut[b] = undefined[r.Intn(len(undefined))]
		// garbage after an undefined flag must never be interpreted: a sparse target keeps the
		// harness alive even if it is (a dense store would allocate for whatever index it is fed)
		sg.dec(h, prov, 1, "sparse", exact, mut)
		g.stats["flag-substitutions"]++
	}
	// mapping mismatch / missing mapping
	otherKind := []string{"log", "linear", "cubic"}[r.Intn(3)]
	sg.newMappingHandle(2, otherKind, alphaGrid[r.Intn(len(alphaGrid))], r.Bool(30))
	if !omit {
		sg.dec(h, "2", 1, sg.storeSpec(allKinds), exact, bs) // provided mapping differs from the embedded one
	} else {
		sg.dec(h, "-", 1, sg.storeSpec(allKinds), exact, bs) // no mapping anywhere
	}
	_ = math.Abs
}

// genFineRoundTrip: a handful of full-mantissa weights (9-byte varfloats for the bins, the zero
// count and the exact total count), encoded and decoded by both decoders into several store kinds.
func (g *Gen) genFineRoundTrip(sg *skGen, exact bool) {
	r := g.rng
	sg.fine = true
	x := ""
	if exact {
		x = " x"
	}
	sg.line("K 1 1 %s%s", sg.storeSpec(nonCollapsing), x)
	n := r.Range(1, 3)
	for i := 0; i < n; i++ {
		sg.add(1, sg.nextValue(), sg.weight(0))
	}
	omit := r.Bool(50)
	sg.ensureValues(1)
	sg.encchk(1, omit)
	bs, ok := sg.bytesOf(1, omit)
	if !ok {
		return
	}
	prov := "-"
	if omit {
		prov = "1"
	}
	// the exact-variant decoder and the plain decoder (which must skip the statistics blocks)
	if exact && sg.dec(2, prov, 1, sg.storeSpec(nonCollapsing), true, bs) == "ok" {
		sg.ensureValues(2)
		sg.obs(2)
	}
	if sg.dec(3, prov, 1, sg.storeSpec(nonCollapsing), false, bs) == "ok" {
		sg.ensureValues(3)
		sg.obs(3)
	}
	sg.obs(1)
}
