module verif/harness

go 1.18

require (
	github.com/DataDog/sketches-go v0.0.0
	google.golang.org/protobuf v1.32.0
)

replace github.com/DataDog/sketches-go => /repo
