package main

import (
	"fmt"
	"io"
	"math"
	"strconv"

	enc "github.com/DataDog/sketches-go/ddsketch/encoding"
)

func errName(err error) string {
	if err == io.EOF {
		return "eof"
	}
	if err != nil && err.Error() == "varint overflows a 32-bit integer" {
		return "overflow32"
	}
	return "other"
}

// execCodec runs one primitive codec operation (property C18). Each decoder gets its own copy of
// the input so that "nothing consumed on error" is observable.
func (r *Runner) execCodec(a []string) string {
	if len(a) != 2 {
		return "bad-op"
	}
	op, arg := a[0], a[1]
	var out string
	okp, msg := guard(func() {
		switch op {
		case "encu":
			v, err := strconv.ParseUint(arg, 10, 64)
			if err != nil {
				out = "bad-op"
				return
			}
			b := []byte{0xAA, 0x55} // existing prefix must be preserved
			enc.EncodeUvarint64(&b, v)
			if b[0] != 0xAA || b[1] != 0x55 {
				r.oracleFail("codec-prefix", "EncodeUvarint64 clobbered the buffer prefix")
			}
			out = fmt.Sprintf("%s %d", showBytes(b[2:]), enc.Uvarint64Size(v))
			r.codecRoundTripU(v, b[2:])
		case "decu":
			in, err := parseBytes(arg)
			if err != nil {
				out = "bad-op"
				return
			}
			b := append([]byte{}, in...)
			v, derr := enc.DecodeUvarint64(&b)
			out = r.showDec(in, b, derr, strconv.FormatUint(v, 10))
			r.decodeAgain("DecodeUvarint64", in, out, func(b *[]byte) string {
				orig := append([]byte{}, (*b)...)
				v, e := enc.DecodeUvarint64(b)
				return r.showDecQuiet(orig, *b, e, strconv.FormatUint(v, 10))
			})
		case "encv":
			v, err := strconv.ParseInt(arg, 10, 64)
			if err != nil {
				out = "bad-op"
				return
			}
			var b []byte
			enc.EncodeVarint64(&b, v)
			out = fmt.Sprintf("%s %d", showBytes(b), enc.Varint64Size(v))
			for _, trailer := range codecTrailers {
				c := append([]byte{}, b...)
				c = append(c, trailer...)
				got, derr := enc.DecodeVarint64(&c)
				if derr != nil || got != v || len(c) != len(trailer) {
					r.oracleFail("codec-roundtrip", fmt.Sprintf("varint64 %d -> %x followed by %x -> %d err=%v rest=%d", v, b, trailer, got, derr, len(c)))
				}
			}
			// … and with nothing after it (the last value of a stream)
			e := append([]byte{}, b...)
			if got, derr := enc.DecodeVarint64(&e); derr != nil || got != v || len(e) != 0 {
				r.oracleFail("codec-roundtrip", fmt.Sprintf("varint64 %d -> %x (end of input) -> %d err=%v rest=%d", v, b, got, derr, len(e)))
			}
			if len(b) < 1 || len(b) > 9 || len(b) != enc.Varint64Size(v) {
				r.oracleFail("codec-size", fmt.Sprintf("varint64 %d: len %d size %d", v, len(b), enc.Varint64Size(v)))
			}
			// the 32-bit reader accepts exactly the int32 range
			c32 := append([]byte{}, b...)
			got32, err32 := enc.DecodeVarint32(&c32)
			in32 := v >= math.MinInt32 && v <= math.MaxInt32
			if in32 != (err32 == nil) || (in32 && (int64(got32) != v || len(c32) != 0)) {
				r.oracleFail("codec-varint32", fmt.Sprintf("DecodeVarint32 of the encoding of %d: %d err=%v rest=%d", v, got32, err32, len(c32)))
			}
		case "decv":
			in, err := parseBytes(arg)
			if err != nil {
				out = "bad-op"
				return
			}
			b := append([]byte{}, in...)
			v, derr := enc.DecodeVarint64(&b)
			out = r.showDec(in, b, derr, strconv.FormatInt(v, 10))
			r.decodeAgain("DecodeVarint64", in, out, func(b *[]byte) string {
				orig := append([]byte{}, (*b)...)
				v, e := enc.DecodeVarint64(b)
				return r.showDecQuiet(orig, *b, e, strconv.FormatInt(v, 10))
			})
		case "decv32":
			in, err := parseBytes(arg)
			if err != nil {
				out = "bad-op"
				return
			}
			b := append([]byte{}, in...)
			v, derr := enc.DecodeVarint32(&b)
			out = r.showDec(in, b, derr, strconv.FormatInt(int64(v), 10))
			r.decodeAgain("DecodeVarint32", in, out, func(b *[]byte) string {
				orig := append([]byte{}, (*b)...)
				v, e := enc.DecodeVarint32(b)
				return r.showDecQuiet(orig, *b, e, strconv.FormatInt(int64(v), 10))
			})
			if derr == nil {
				c := append([]byte{}, in...)
				v64, _ := enc.DecodeVarint64(&c)
				if v64 != int64(v) {
					r.oracleFail("codec-varint32", fmt.Sprintf("%x: 32-bit %d vs 64-bit %d", in, v, v64))
				}
			}
		case "encf":
			bits, err := strconv.ParseUint(arg, 16, 64)
			if err != nil {
				out = "bad-op"
				return
			}
			var b []byte
			enc.EncodeFloat64LE(&b, math.Float64frombits(bits))
			out = showBytes(b)
			c := append([]byte{}, b...)
			c = append(c, 0xFF)
			got, derr := enc.DecodeFloat64LE(&c)
			if derr != nil || math.Float64bits(got) != bits || len(c) != 1 || len(b) != 8 {
				r.oracleFail("codec-roundtrip", fmt.Sprintf("float64LE %016x -> %x -> %016x", bits, b, math.Float64bits(got)))
			}
			e := append([]byte{}, b...)
			if got, derr := enc.DecodeFloat64LE(&e); derr != nil || math.Float64bits(got) != bits || len(e) != 0 {
				r.oracleFail("codec-roundtrip", fmt.Sprintf("float64LE %016x -> %x (end of input) -> %016x err=%v", bits, b, math.Float64bits(got), derr))
			}
			for k := 0; k < len(b); k++ { // every strict prefix is an end-of-input error consuming nothing
				p := roomy(b[:k], b[len(b)-1])
				if _, perr := enc.DecodeFloat64LE(&p); perr != io.EOF || len(p) != k {
					r.oracleFail("codec-prefix-eof", fmt.Sprintf("float64LE %x cut at %d: err=%v rest=%d", b, k, perr, len(p)))
				}
			}
		case "decf":
			in, err := parseBytes(arg)
			if err != nil {
				out = "bad-op"
				return
			}
			b := append([]byte{}, in...)
			v, derr := enc.DecodeFloat64LE(&b)
			out = r.showDec(in, b, derr, fmt.Sprintf("%016x", math.Float64bits(v)))
			r.decodeAgain("DecodeFloat64LE", in, out, func(b *[]byte) string {
				orig := append([]byte{}, (*b)...)
				v, e := enc.DecodeFloat64LE(b)
				return r.showDecQuiet(orig, *b, e, fmt.Sprintf("%016x", math.Float64bits(v)))
			})
		case "encvf":
			bits, err := strconv.ParseUint(arg, 16, 64)
			if err != nil {
				out = "bad-op"
				return
			}
			v := math.Float64frombits(bits)
			var b []byte
			enc.EncodeVarfloat64(&b, v)
			out = fmt.Sprintf("%s %d", showBytes(b), enc.Varfloat64Size(v))
			want := (v + 1) - 1
			for _, trailer := range append([][]byte{{0x81, 0x7F}}, codecTrailers...) {
				c := append([]byte{}, b...)
				c = append(c, trailer...)
				got, derr := enc.DecodeVarfloat64(&c)
				if derr != nil || len(c) != len(trailer) || !(got == want || (math.IsNaN(got) && math.IsNaN(want))) {
					r.oracleFail("codec-roundtrip", fmt.Sprintf("varfloat64 %016x -> %x followed by %x -> %v want %v err=%v", bits, b, trailer, got, want, derr))
				}
			}
			e := append([]byte{}, b...)
			if got, derr := enc.DecodeVarfloat64(&e); derr != nil || len(e) != 0 || !(got == want || (math.IsNaN(got) && math.IsNaN(want))) {
				r.oracleFail("codec-roundtrip", fmt.Sprintf("varfloat64 %016x -> %x (end of input) -> %v want %v err=%v", bits, b, got, want, derr))
			}
			if len(b) < 1 || len(b) > 9 || len(b) != enc.Varfloat64Size(v) {
				r.oracleFail("codec-size", fmt.Sprintf("varfloat64 %016x: len %d size %d", bits, len(b), enc.Varfloat64Size(v)))
			}
			// every strict prefix is an end-of-input error that consumes nothing
			for k := 0; k < len(b); k++ {
				p := roomy(b[:k], b[len(b)-1])
				_, perr := enc.DecodeVarfloat64(&p)
				if perr != io.EOF || len(p) != k {
					r.oracleFail("codec-prefix-eof", fmt.Sprintf("varfloat64 %x cut at %d: err=%v rest=%d", b, k, perr, len(p)))
				}
			}
		case "decvf":
			in, err := parseBytes(arg)
			if err != nil {
				out = "bad-op"
				return
			}
			b := append([]byte{}, in...)
			v, derr := enc.DecodeVarfloat64(&b)
			out = r.showDec(in, b, derr, showF(v))
			r.decodeAgain("DecodeVarfloat64", in, out, func(b *[]byte) string {
				orig := append([]byte{}, (*b)...)
				v, e := enc.DecodeVarfloat64(b)
				return r.showDecQuiet(orig, *b, e, showF(v))
			})
		default:
			out = "bad-op"
		}
	})
	if !okp {
		r.oracleFail("panic", "codec "+op+" "+arg+": "+msg)
		return "panic"
	}
	return out
}

func (r *Runner) showDecQuiet(in, rest []byte, err error, val string) string {
	if err != nil {
		return "err " + errName(err)
	}
	return fmt.Sprintf("ok %s %s", val, showBytes(rest))
}

func (r *Runner) showDec(in, rest []byte, err error, val string) string {
	if err != nil {
		if err == io.EOF && len(rest) != len(in) {
			r.oracleFail("codec-consumed-on-error", fmt.Sprintf("%x: %d bytes consumed with error %v", in, len(in)-len(rest), err))
		}
		return "err " + errName(err)
	}
	if len(in)-len(rest) > 9 {
		r.oracleFail("codec-overread", fmt.Sprintf("%x: consumed %d bytes", in, len(in)-len(rest)))
	}
	return fmt.Sprintf("ok %s %s", val, showBytes(rest))
}

// what may follow an encoded value in a stream
var codecTrailers = [][]byte{{0x00}, {0x01}, {0x7f}, {0x80, 0x01}, {0xFF, 0x00}, {0xFF, 0xFF, 0xFF, 0xFF, 0xFF, 0xFF, 0xFF, 0xFF, 0xFF, 0x01}}

func (r *Runner) codecRoundTripU(v uint64, b []byte) {
	// "decoding consumes exactly the bytes that encoding produced regardless of what follows": followed by
	// bytes of every class a foreign varint reader could mistake for a continuation or a terminator
	for _, trailer := range codecTrailers {
		c := append([]byte{}, b...)
		c = append(c, trailer...)
		got, err := enc.DecodeUvarint64(&c)
		if err != nil || got != v || len(c) != len(trailer) {
			r.oracleFail("codec-roundtrip", fmt.Sprintf("uvarint64 %d -> %x followed by %x -> %d err=%v rest=%d", v, b, trailer, got, err, len(c)))
		}
	}
	e := append([]byte{}, b...)
	if got, err := enc.DecodeUvarint64(&e); err != nil || got != v || len(e) != 0 {
		r.oracleFail("codec-roundtrip", fmt.Sprintf("uvarint64 %d -> %x (end of input) -> %d err=%v rest=%d", v, b, got, err, len(e)))
	}
	if len(b) < 1 || len(b) > 9 || len(b) != enc.Uvarint64Size(v) {
		r.oracleFail("codec-size", fmt.Sprintf("uvarint64 %d: len %d size %d", v, len(b), enc.Uvarint64Size(v)))
	}
	for k := 0; k < len(b); k++ {
		p := roomy(b[:k], b[len(b)-1])
		_, perr := enc.DecodeUvarint64(&p)
		if perr != io.EOF || len(p) != k {
			r.oracleFail("codec-prefix-eof", fmt.Sprintf("uvarint64 %x cut at %d: err=%v rest=%d", b, k, perr, len(p)))
		}
	}
}

// roomy returns a slice with the same content as in, cut from a larger backing array whose spare
// capacity holds plausible-looking stale bytes (a reused receive buffer): a decoder must not read them.
func roomy(in []byte, stale byte) []byte {
	buf := make([]byte, len(in)+24)
	copy(buf, in)
	for i := len(in); i < len(buf); i++ {
		buf[i] = stale
	}
	return buf[:len(in)]
}

// decodeAgain runs a decoder on roomy variants of the input and reports any difference from the
// result obtained on an exact-capacity copy (C18: decoding depends on the input bytes only).
func (r *Runner) decodeAgain(name string, in []byte, want string, dec func(b *[]byte) string) {
	for _, stale := range []byte{0x00, 0x7f, 0x80, 0xff} {
		b := roomy(in, stale)
		var got string
		okp, msg := guard(func() { got = dec(&b) })
		if !okp {
			r.oracleFail("codec-reads-beyond-input", fmt.Sprintf("%s on %x with spare capacity (stale %02x): panic %s", name, in, stale, msg))
			return
		}
		if got != want {
			r.oracleFail("codec-reads-beyond-input", fmt.Sprintf("%s on %x: %q with exact capacity, %q with spare capacity (stale %02x)", name, in, want, got, stale))
			return
		}
	}
}
