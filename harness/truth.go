package main

import (
	"math/big"
	"sort"
)

// Truth is the ground truth for a store: the mathematical map index -> accumulated weight,
// with the step relations of a bounded (collapsing) store when clamp != 0. It is written
// independently of the Lean spec and of the library.
type Truth struct {
	clamp int // 0 none, 1 lowest, 2 highest
	n     int
	m     map[int]*big.Rat
}

func NewTruth(clamp, n int) *Truth { return &Truth{clamp: clamp, n: n, m: map[int]*big.Rat{}} }

func (t *Truth) Copy() *Truth {
	c := NewTruth(t.clamp, t.n)
	for k, v := range t.m {
		c.m[k] = new(big.Rat).Set(v)
	}
	return c
}

func (t *Truth) Keys() []int {
	ks := make([]int, 0, len(t.m))
	for k := range t.m {
		ks = append(ks, k)
	}
	sort.Ints(ks)
	return ks
}

func (t *Truth) addRaw(i int, w *big.Rat) {
	if w.Sign() == 0 {
		return
	}
	if c, ok := t.m[i]; ok {
		c.Add(c, w)
		if c.Sign() == 0 {
			delete(t.m, i)
		}
	} else {
		t.m[i] = new(big.Rat).Set(w)
	}
}

func (t *Truth) fold() {
	if len(t.m) == 0 || t.clamp == 0 {
		return
	}
	ks := t.Keys()
	if t.clamp == 1 {
		edge := ks[len(ks)-1] - t.n + 1
		for _, k := range ks {
			if k < edge {
				w := t.m[k]
				delete(t.m, k)
				t.addRaw(edge, w)
			}
		}
	} else {
		edge := ks[0] + t.n - 1
		for _, k := range ks {
			if k > edge {
				w := t.m[k]
				delete(t.m, k)
				t.addRaw(edge, w)
			}
		}
	}
}

func (t *Truth) Add(i int, w *big.Rat) {
	t.addRaw(i, w)
	t.fold()
}

func (t *Truth) Merge(o *Truth) {
	for _, k := range o.Keys() {
		t.addRaw(k, o.m[k])
	}
	t.fold()
}

func (t *Truth) Clear() { t.m = map[int]*big.Rat{} }

func (t *Truth) Scale(w *big.Rat) {
	for _, v := range t.m {
		v.Mul(v, w)
	}
}

func (t *Truth) Total() *big.Rat {
	s := new(big.Rat)
	for _, v := range t.m {
		s.Add(s, v)
	}
	return s
}

func (t *Truth) Bins() []binRat {
	ks := t.Keys()
	out := make([]binRat, len(ks))
	for i, k := range ks {
		out[i] = binRat{k, t.m[k]}
	}
	return out
}

// KeyAtRank: first index whose cumulative weight exceeds max(rank,0); max index if none.
func (t *Truth) KeyAtRank(rank *big.Rat) (int, bool) {
	ks := t.Keys()
	if len(ks) == 0 {
		return 0, false
	}
	r := new(big.Rat).Set(rank)
	if r.Sign() < 0 {
		r.SetInt64(0)
	}
	cum := new(big.Rat)
	for _, k := range ks {
		cum.Add(cum, t.m[k])
		if cum.Cmp(r) > 0 {
			return k, true
		}
	}
	return ks[len(ks)-1], true
}

// InEnvelope reports whether every weight is a multiple of 2^-g and total*2^g < 2^52, so that
// every float64 partial sum the library may form (in any order) is exact.
func (t *Truth) InEnvelope() bool {
	g := 0
	for _, v := range t.m {
		d := v.Denom()
		// the denominator must be a power of two
		if new(big.Int).And(d, new(big.Int).Sub(d, big.NewInt(1))).Sign() != 0 {
			return false
		}
		if b := d.BitLen() - 1; b > g {
			g = b
		}
	}
	tot := t.Total()
	scaled := new(big.Rat).Mul(tot, new(big.Rat).SetInt(new(big.Int).Lsh(big.NewInt(1), uint(g))))
	lim := new(big.Rat).SetInt(new(big.Int).Lsh(big.NewInt(1), 52))
	return scaled.Cmp(lim) < 0
}
