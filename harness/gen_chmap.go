package main

import (
	"fmt"
	"math"
)

// genChangeMappingHistory (C17): a sketch with values around 1, converted to another mapping
// (coarser, finer, equal, other kind) with a scale factor; the oracle lines carry every answer of
// the two real mappings that the conversion consults.
func (g *Gen) genChangeMappingHistory() {
	r := g.rng
	sg := g.newSkGen("C17")
	g.beginHist("C17")
	sg.sh.Exec(fmt.Sprintf("#hist %d", g.hist))
	// source mapping: values well inside the range, around 1
	sg.mkind = []string{"log", "linear", "cubic"}[r.Intn(3)]
	alpha := []float64{0.001, 0.01, 0.02, 0.05, 0.1, 0.3}[r.Intn(6)]
	sg.mh = 1
	sg.m = sg.newMappingHandle(1, sg.mkind, alpha, r.Bool(15))
	sg.center = sg.m.Index(1)
	sg.span = 1 << uint(r.Range(2, 7))
	x := ""
	if r.Bool(25) {
		x = " x"
	}
	sg.line("K 1 1 %s%s", sg.storeSpec(nonCollapsing), x)
	n := r.Range(1, 40)
	for i := 0; i < n; i++ {
		i0 := sg.center + r.Range(-sg.span, sg.span)
		lo, hi := sg.m.LowerBound(i0), sg.m.LowerBound(i0+1)
		v := lo + (hi-lo)*r.Float01()
		if r.Bool(30) {
			v = -v
		}
		if r.Bool(5) {
			v = 0
		}
		sg.add(1, v, sg.weight(70))
	}
	// target mapping
	k2 := []string{"log", "linear", "cubic"}[r.Intn(3)]
	a2 := []float64{0.001, 0.01, 0.02, 0.05, 0.1, 0.3}[r.Intn(6)]
	if r.Bool(30) {
		k2, a2 = sg.mkind, alpha
	}
	var m2 = sg.newMappingHandle(2, k2, a2, false)
	mh2 := 2
	if r.Bool(10) {
		// the sketch's OWN mapping object as the new mapping (a pure change of unit when the scale is not 1)
		mh2 = 1
		m2 = sg.m
	} else if r.Bool(15) { // the very same mapping
		pb := sg.m.ToProto()
		sg.line("M 2 %s %s %s %s %s %s", sg.mkind, hexF(pb.Gamma), hexF(pb.IndexOffset), hexF(sg.m.MinIndexableValue()), hexF(sg.m.MaxIndexableValue()), hexF(sg.m.RelativeAccuracy()))
		m2 = sg.m
	}
	gamma := sg.m.ToProto().Gamma
	scale := []float64{1, 1, 1 / gamma, gamma, 2, 0.5, 1e-3, 1e3, 1 / (gamma * gamma), math.Exp((r.Float01() - 0.5) * 13)}[r.Intn(10)]
	e := sg.sh.sks[1]
	if e == nil || e.poisoned {
		return
	}
	// oracle answers consulted by changeStoreMapping
	seen := map[string]bool{}
	emit := func(s string) {
		if !seen[s] {
			seen[s] = true
			sg.line("%s", s)
		}
	}
	okp, _ := guard(func() {
		for _, st := range []interface {
			ForEach(func(int, float64) bool)
		}{e.sk().GetPositiveValueStore(), e.sk().GetNegativeValueStore()} {
			st.ForEach(func(idx int, c float64) bool {
				emit(fmt.Sprintf("ml 1 %d %s", idx, hexF(sg.m.LowerBound(idx))))
				emit(fmt.Sprintf("ml 1 %d %s", idx+1, hexF(sg.m.LowerBound(idx+1))))
				inLow := sg.m.LowerBound(idx) * scale
				inHigh := sg.m.LowerBound(idx+1) * scale
				out := m2.Index(inLow)
				emit(fmt.Sprintf("mi %d %s %d", mh2, hexF(inLow), out))
				for steps := 0; steps < 100000; steps++ {
					emit(fmt.Sprintf("ml %d %d %s", mh2, out, hexF(m2.LowerBound(out))))
					if !(m2.LowerBound(out) < inHigh) {
						break
					}
					emit(fmt.Sprintf("ml %d %d %s", mh2, out+1, hexF(m2.LowerBound(out+1))))
					out++
				}
				return false
			})
		}
	})
	if !okp {
		sg.line("xpanic 1 foreach")
		return
	}
	var pos, neg string
	okc, _ := guard(func() {
		res, _ := doChangeMapping(e, m2, scale, "sparse", 0)
		pos, neg = showFBins(storeBinsF(res.GetPositiveValueStore())), showFBins(storeBinsF(res.GetNegativeValueStore()))
	})
	if !okc {
		sg.line("xpanic 1 chmap")
		return
	}
	sg.line("chmap 1 %d %s %s %s", mh2, hexF(scale), pos, neg)
	sg.obs(1)
}
