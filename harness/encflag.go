package main

import enc "github.com/DataDog/sketches-go/ddsketch/encoding"

// encFlag rebuilds an encoding.Flag from its byte through the package's own decoder.
func encFlag(b byte) enc.Flag {
	bs := []byte{b}
	f, _ := enc.DecodeFlag(&bs)
	return f
}
