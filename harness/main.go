package main

import (
	"encoding/json"
	"flag"
	"fmt"
	"os"
	"strconv"
	"strings"
)

// hx gen <prop> -seed S -n K -tier quick|thorough -out ops.txt [-stats stats.json]
// hx run  -in ops.txt -out impl.txt -oracle oracle.txt [-stats stats.json]
func main() {
	if len(os.Args) < 2 {
		fmt.Fprintln(os.Stderr, "usage: hx gen|run ...")
		os.Exit(2)
	}
	switch os.Args[1] {
	case "gen":
		fs := flag.NewFlagSet("gen", flag.ExitOnError)
		seed := fs.Uint64("seed", 1, "seed")
		n := fs.Int("n", 100, "number of histories / cases")
		tier := fs.String("tier", "quick", "tier")
		out := fs.String("out", "ops.txt", "output file")
		stats := fs.String("stats", "", "stats json")
		prop := os.Args[2]
		fs.Parse(os.Args[3:])
		f, err := os.Create(*out)
		if err != nil {
			panic(err)
		}
		g := NewGen(f, *seed, *tier)
		g.emit("#batch prop=%s seed=%d n=%d tier=%s", prop, *seed, *n, *tier)
		generate(g, prop, *n)
		g.finish()
		f.Close()
		if *stats != "" {
			writeJSON(*stats, map[string]interface{}{"stats": g.stats, "sample": g.sample, "histories": g.hist})
		}
	case "refresh":
		// hx refresh -in a.ops -out b.ops : rewrites the implementation's answers embedded in `chmap`
		// lines with those of the current tree (used to keep corpus replays usable after a repair)
		fs := flag.NewFlagSet("refresh", flag.ExitOnError)
		in := fs.String("in", "", "ops")
		out := fs.String("out", "", "ops")
		fs.Parse(os.Args[2:])
		data, err := os.ReadFile(*in)
		if err != nil {
			panic(err)
		}
		r := NewRunner()
		r.quiet = true
		var res []string
		for _, l := range strings.Split(strings.TrimRight(string(data), "\n"), "\n") {
			f := strings.Fields(l)
			if len(f) == 6 && f[0] == "chmap" {
				if e, _ := r.getSk(f[1]); e != nil {
					mh, _ := strconv.Atoi(f[2])
					sc, _ := parseF(f[3])
					if me, ok := r.maps[mh]; ok {
						d, _ := doChangeMapping(e, me.m, sc, "sparse", 0)
						l = fmt.Sprintf("chmap %s %s %s %s %s", f[1], f[2], f[3], showFBins(storeBinsF(d.GetPositiveValueStore())), showFBins(storeBinsF(d.GetNegativeValueStore())))
					}
				}
			}
			r.Exec(l)
			res = append(res, l)
		}
		os.WriteFile(*out, []byte(strings.Join(res, "\n")+"\n"), 0o644)
	case "consts":
		fs := flag.NewFlagSet("consts", flag.ExitOnError)
		repo := fs.String("repo", "/repo", "repository root")
		out := fs.String("out", "Consts.lean", "output file")
		fs.Parse(os.Args[2:])
		genConsts(*repo, *out)
	case "transcov":
		fs := flag.NewFlagSet("transcov", flag.ExitOnError)
		repo := fs.String("repo", "/repo", "repository root")
		fs.Parse(os.Args[2:])
		transCoverage(*repo)
	case "trans":
		fs := flag.NewFlagSet("trans", flag.ExitOnError)
		repo := fs.String("repo", "/repo", "repository root")
		out := fs.String("out", ".", "output directory (DDS/Generated)")
		fs.Parse(os.Args[2:])
		os.Exit(genTrans(*repo, *out))
	case "run":
		fs := flag.NewFlagSet("run", flag.ExitOnError)
		in := fs.String("in", "ops.txt", "ops")
		out := fs.String("out", "impl.txt", "observations")
		oracle := fs.String("oracle", "", "oracle failures")
		stats := fs.String("stats", "", "stats json")
		fs.Parse(os.Args[2:])
		fi, err := os.Open(*in)
		if err != nil {
			panic(err)
		}
		fo, err := os.Create(*out)
		if err != nil {
			panic(err)
		}
		r := NewRunner()
		r.RunAll(fi, fo)
		fo.Close()
		if *oracle != "" {
			os.WriteFile(*oracle, []byte(strings.Join(r.fails, "\n")+nl(len(r.fails))), 0o644)
		}
		if *stats != "" {
			writeJSON(*stats, map[string]interface{}{"stats": r.stats, "oracle_failures": len(r.fails)})
		}
	default:
		fmt.Fprintln(os.Stderr, "unknown command")
		os.Exit(2)
	}
}

func nl(n int) string {
	if n > 0 {
		return "\n"
	}
	return ""
}

func writeJSON(path string, v interface{}) {
	b, _ := json.MarshalIndent(v, "", " ")
	os.WriteFile(path, b, 0o644)
}

func generate(g *Gen, prop string, n int) {
	switch prop {
	case "C04", "C05", "C14s", "C15s", "C16s":
		p := strings.TrimSuffix(prop, "s")
		maxOps := 40
		if g.thorough() {
			maxOps = 400
		}
		for i := 0; i < n; i++ {
			g.genStoreHistory(p, maxOps)
		}
	case "C01", "C02", "C10", "C11", "C12", "C13", "C14", "C15", "C16", "C05k":
		p := strings.TrimSuffix(prop, "k")
		for i := 0; i < n; i++ {
			g.genSketchHistory(p)
		}
	case "C10t", "C13t":
		for i := 0; i < n; i++ {
			g.genStatHistory(strings.TrimSuffix(prop, "t"))
		}
	case "C06":
		for i := 0; i < n; i++ {
			g.genRoundTripHistory()
		}
	case "C07":
		for i := 0; i < n; i++ {
			if i%3 == 0 {
				g.genRoundTripHistory() // (i) bytes produced by the implementation -> documentation decoder
			} else {
				g.genGrammarHistory() // (ii) streams from the documented grammar -> implementation
			}
		}
	case "C08":
		for i := 0; i < n; i++ {
			g.genTruncationHistory()
		}
	case "C03":
		for i := 0; i < n; i++ {
			g.genMappingHistory()
		}
	case "C19":
		for i := 0; i < n; i++ {
			g.genMappingIdentityHistory()
		}
	case "C09":
		for i := 0; i < n; i++ {
			g.genProtoHistory()
		}
	case "C17":
		for i := 0; i < n; i++ {
			g.genChangeMappingHistory()
		}
	case "C20":
		for i := 0; i < n; i++ {
			g.genDatasetHistory()
		}
	case "C18":
		g.genCodec(n)
	default:
		fmt.Fprintln(os.Stderr, "unknown property", prop)
		os.Exit(2)
	}
}
