package main

import (
	"fmt"
	"io"
	"math"
	"math/big"
	"sort"
	"strconv"
	"strings"

	"github.com/DataDog/sketches-go/ddsketch"
	"github.com/DataDog/sketches-go/ddsketch/mapping"
	"github.com/DataDog/sketches-go/ddsketch/stat"
	"github.com/DataDog/sketches-go/ddsketch/store"
)

type mapEntry struct {
	m    mapping.IndexMapping
	kind string
}

type wv struct {
	v float64
	w *big.Rat
}

type skEntry struct {
	plain     *ddsketch.DDSketch
	exact     *ddsketch.DDSketchWithExactSummaryStatistics
	mh        int
	storeKind string
	n         int
	poisoned  bool
	dirty     bool // poisoned by a refused decode only: Clear() restores it
	inputs    []wv // accepted (value, weight) pairs, when known
	known     bool // inputs are the complete history of this sketch

	// cache of the sorted candidates of the quantile oracle (see candidates)
	inVer, candVer int
	candCs         []cand
	candW          *big.Rat
	candUnit       bool
}

func (e *skEntry) sk() *ddsketch.DDSketch {
	if e.exact != nil {
		return e.exact.DDSketch
	}
	return e.plain
}

func newMapping(kind string, gamma, offset float64) (mapping.IndexMapping, error) {
	switch kind {
	case "log":
		return mapping.NewLogarithmicMappingWithGamma(gamma, offset)
	case "linear":
		return mapping.NewLinearlyInterpolatedMappingWithGamma(gamma, offset)
	case "cubic":
		return mapping.NewCubicallyInterpolatedMappingWithGamma(gamma, offset)
	}
	return nil, fmt.Errorf("unknown kind")
}

// viaConvenienceConstructor builds the same configuration with LogUnboundedDenseDDSketch,
// LogCollapsing{Lowest,Highest}DenseDDSketch, NewDefaultDDSketch or
// NewDefaultDDSketchWithExactSummaryStatistics when the mapping is the logarithmic mapping that the
// relative accuracy alone determines (same serialized form); nil, nil when there is no such
// constructor. A constructor that fails or returns something else than what it documents is a
// constructor-decision failure.
func (r *Runner) viaConvenienceConstructor(m mapping.IndexMapping, kind string, n int, exact bool) (*ddsketch.DDSketch, *ddsketch.DDSketchWithExactSummaryStatistics) {
	if _, isLog := m.(*mapping.LogarithmicMapping); !isLog {
		return nil, nil
	}
	alpha := m.RelativeAccuracy()
	m2, err := mapping.NewLogarithmicMapping(alpha)
	if err != nil {
		return nil, nil
	}
	var b1, b2 []byte
	m.Encode(&b1)
	m2.Encode(&b2)
	if string(b1) != string(b2) {
		return nil, nil
	}
	var sk *ddsketch.DDSketch
	var xs *ddsketch.DDSketchWithExactSummaryStatistics
	name := ""
	switch {
	case exact && kind == "pag":
		name = "NewDefaultDDSketchWithExactSummaryStatistics"
		xs, err = ddsketch.NewDefaultDDSketchWithExactSummaryStatistics(alpha)
		if xs != nil {
			sk = xs.DDSketch
		}
	case exact:
		return nil, nil
	case kind == "pag":
		name = "NewDefaultDDSketch"
		sk, err = ddsketch.NewDefaultDDSketch(alpha)
	case kind == "dense":
		name = "LogUnboundedDenseDDSketch"
		sk, err = ddsketch.LogUnboundedDenseDDSketch(alpha)
	case kind == "low":
		name = "LogCollapsingLowestDenseDDSketch"
		sk, err = ddsketch.LogCollapsingLowestDenseDDSketch(alpha, n)
	case kind == "high":
		name = "LogCollapsingHighestDenseDDSketch"
		sk, err = ddsketch.LogCollapsingHighestDenseDDSketch(alpha, n)
	default:
		return nil, nil
	}
	r.stats["ctor:"+name]++
	if err != nil || sk == nil {
		r.oracleFail("constructor-decision", fmt.Sprintf("%s(%v) with a valid relative accuracy: sketch=%v err=%v", name, alpha, sk != nil, err))
		return nil, nil
	}
	wantType := fmt.Sprintf("%T", providerOf(kind, n)())
	if got := fmt.Sprintf("%T", sk.GetPositiveValueStore()); got != wantType {
		r.oracleFail("constructor-decision", fmt.Sprintf("%s: positive store is %s, documented %s", name, got, wantType))
	}
	if got := fmt.Sprintf("%T", sk.GetNegativeValueStore()); got != wantType {
		r.oracleFail("constructor-decision", fmt.Sprintf("%s: negative store is %s, documented %s", name, got, wantType))
	}
	if !sk.IndexMapping.Equals(m) || !sk.IsEmpty() {
		r.oracleFail("constructor-decision", fmt.Sprintf("%s(%v): mapping %v, empty %v", name, alpha, sk.IndexMapping, sk.IsEmpty()))
	}
	if exact {
		return nil, xs
	}
	return sk, nil
}

// exactFromData exercises NewDDSketchWithExactSummaryStatisticsFromData: refused when exactly one of
// (sketch, statistics) is empty, accepted otherwise; returns the sketch built from an empty pair.
func (r *Runner) exactFromData(m mapping.IndexMapping, kind string, n int) *ddsketch.DDSketchWithExactSummaryStatistics {
	mk := func(fill bool) *ddsketch.DDSketch {
		s := ddsketch.NewDDSketchFromStoreProvider(m, providerOf(kind, n))
		if fill {
			_ = s.Add(1)
		}
		return s
	}
	st := func(fill bool) *stat.SummaryStatistics {
		if fill {
			x, _ := stat.NewSummaryStatisticsFromData(1, 1, 1, 1)
			return x
		}
		return stat.NewSummaryStatistics()
	}
	var out *ddsketch.DDSketchWithExactSummaryStatistics
	for _, c := range [][2]bool{{false, false}, {true, true}, {true, false}, {false, true}} {
		x, err := ddsketch.NewDDSketchWithExactSummaryStatisticsFromData(mk(c[0]), st(c[1]))
		if (err != nil) != (c[0] != c[1]) || (err == nil && x == nil) {
			r.oracleFail("constructor-decision", fmt.Sprintf("NewDDSketchWithExactSummaryStatisticsFromData(sketch filled=%v, statistics filled=%v): err=%v", c[0], c[1], err))
		}
		if !c[0] && !c[1] && err == nil {
			out = x
		}
	}
	r.stats["ctor:NewDDSketchWithExactSummaryStatisticsFromData"]++
	return out
}

func providerOf(kind string, n int) store.Provider {
	switch kind {
	case "dense":
		return store.DenseStoreConstructor
	case "sparse":
		return store.SparseStoreConstructor
	case "pag":
		return store.BufferedPaginatedStoreConstructor
	case "low":
		return func() store.Store { return store.NewCollapsingLowestDenseStore(n) }
	case "high":
		return func() store.Store { return store.NewCollapsingHighestDenseStore(n) }
	}
	return nil
}

func skErrName(err error) string {
	if err == nil {
		return "nil"
	}
	switch err {
	case ddsketch.ErrNegativeCount:
		return "negcount"
	case ddsketch.ErrUntrackableTooHigh:
		return "toohigh"
	case ddsketch.ErrUntrackableTooLow:
		return "toolow"
	case ddsketch.ErrUntrackableNaN:
		return "nan"
	case io.EOF:
		return "eof"
	}
	s := err.Error()
	switch {
	case strings.Contains(s, "quantile must be between"):
		return "badq"
	case strings.Contains(s, "no such element"), strings.Contains(s, "of empty store is undefined"):
		return "empty"
	case strings.Contains(s, "different index mappings"), strings.Contains(s, "index mapping mismatch"):
		return "mismatch"
	case strings.Contains(s, "reweight by a negative"):
		return "badfactor"
	case strings.Contains(s, "unknown encoding flag"):
		return "unknownflag"
	case strings.Contains(s, "unknown mapping"):
		return "unknownmapping"
	case strings.Contains(s, "Gamma must be greater"):
		return "badgamma"
	case strings.Contains(s, "missing index mapping"):
		return "nomapping"
	case strings.Contains(s, "unknown bin encoding"):
		return "unknownbins"
	case strings.Contains(s, "missing exact summary"):
		return "nostats"
	}
	return "other"
}

func parseF(s string) (float64, bool) {
	b, err := strconv.ParseUint(s, 16, 64)
	if err != nil || len(s) != 16 {
		return 0, false
	}
	return math.Float64frombits(b), true
}

func parseStoreKind(a []string) (kind string, n int, rest []string, ok bool) {
	if len(a) == 0 {
		return
	}
	switch a[0] {
	case "dense", "sparse", "pag":
		return a[0], 0, a[1:], true
	case "low", "high":
		if len(a) < 2 {
			return
		}
		n, err := strconv.Atoi(a[1])
		if err != nil {
			return "", 0, nil, false
		}
		return a[0], n, a[2:], true
	}
	return
}

func (r *Runner) getSk(h string) (*skEntry, string) {
	id, err := strconv.Atoi(h)
	if err != nil {
		return nil, "bad-op"
	}
	e, ok := r.sks[id]
	if !ok {
		return nil, "bad-handle"
	}
	if e.poisoned {
		return nil, "poisoned"
	}
	return e, ""
}

func (r *Runner) poisonSk(e *skEntry, what, msg string) string {
	e.poisoned = true
	r.oracleFail("panic", fmt.Sprintf("%s on sketch(%s %d): %s", what, e.storeKind, e.n, msg))
	return "panic"
}

func showValErr(v float64, err error) string {
	if err != nil {
		return "err:" + skErrName(err)
	}
	return showF(v)
}

type feItem struct {
	v float64
	w *big.Rat
}

func (r *Runner) sketchObs(e *skEntry, withSum bool) string {
	s := e.sk()
	var fe []feItem
	var count, sum float64
	var empty bool
	var mn, mx float64
	var errMn, errMx error
	// the observers run in a different order each time (the answers are printed in a fixed one): a
	// read that only works after another read has reorganised the store must not go unnoticed
	obs := []func(){
		func() {
			s.ForEach(func(value, count float64) bool {
				fe = append(fe, feItem{value, ratOf(count)})
				return false
			})
		},
		func() {
			if e.exact != nil {
				count = e.exact.GetCount()
			} else {
				count = s.GetCount()
			}
		},
		func() {
			if e.exact != nil {
				sum = e.exact.GetSum()
			} else {
				sum = s.GetSum()
			}
		},
		func() {
			if e.exact != nil {
				empty = e.exact.IsEmpty()
			} else {
				empty = s.IsEmpty()
			}
		},
		func() {
			if e.exact != nil {
				mn, errMn = e.exact.GetMinValue()
			} else {
				mn, errMn = s.GetMinValue()
			}
		},
		func() {
			if e.exact != nil {
				mx, errMx = e.exact.GetMaxValue()
			} else {
				mx, errMx = s.GetMaxValue()
			}
		},
	}
	r.obsMode++
	k := r.obsMode % len(obs)
	if (r.obsMode/len(obs))%2 == 0 {
		for i := range obs {
			obs[(k+i)%len(obs)]()
		}
	} else {
		for i := range obs {
			obs[(k+len(obs)-i)%len(obs)]()
		}
	}
	sort.SliceStable(fe, func(i, j int) bool { return fe[i].v < fe[j].v })
	parts := make([]string, len(fe))
	for i, f := range fe {
		parts[i] = showF(f.v) + ":" + showRat(f.w)
	}
	feS := "-"
	if len(parts) > 0 {
		feS = strings.Join(parts, ",")
	}
	sumS := "skip"
	if withSum {
		sumS = showF(sum)
	}
	r.sketchCoherence(e, count, sum, empty, mn, errMn, mx, errMx, fe)
	return fmt.Sprintf("count=%s zero=%s empty=%d min=%s max=%s sum=%s fe=%s", showF(count), showF(s.GetZeroCount()),
		b2i(empty), showValErr(mn, errMn), showValErr(mx, errMx), sumS, feS)
}

func (r *Runner) execSketch(cmd string, a []string) string {
	switch cmd {
	case "M":
		if len(a) != 7 {
			return "bad-op"
		}
		id, err := strconv.Atoi(a[0])
		g, ok1 := parseF(a[2])
		o, ok2 := parseF(a[3])
		if err != nil || !ok1 || !ok2 {
			return "bad-op"
		}
		m, merr := newMapping(a[1], g, o)
		if merr != nil {
			return "err:" + skErrName(merr)
		}
		mn, _ := parseF(a[4])
		mx, _ := parseF(a[5])
		ra, _ := parseF(a[6])
		if m.MinIndexableValue() != mn || m.MaxIndexableValue() != mx || m.RelativeAccuracy() != ra {
			r.oracleFail("oracle-stale", "mapping parameters on the M line differ from the implementation's")
		}
		r.maps[id] = &mapEntry{m: m, kind: a[1]}
		return "ok"
	case "mv", "ml", "mi":
		if len(a) != 3 {
			return "bad-op"
		}
		id, err := strconv.Atoi(a[0])
		me, ok := r.maps[id]
		if err != nil || !ok {
			return "bad-handle"
		}
		switch cmd {
		case "mv", "ml":
			k, err := strconv.Atoi(a[1])
			f, ok := parseF(a[2])
			if err != nil || !ok {
				return "bad-op"
			}
			var got float64
			if cmd == "mv" {
				got = me.m.Value(k)
			} else {
				got = me.m.LowerBound(k)
			}
			if math.Float64bits(got) != math.Float64bits(f) {
				r.oracleFail("oracle-stale", fmt.Sprintf("%s %s: line says %v, implementation says %v", cmd, a[1], f, got))
			}
		case "mi":
			f, ok := parseF(a[1])
			k, err := strconv.Atoi(a[2])
			if err != nil || !ok {
				return "bad-op"
			}
			if got := me.m.Index(f); got != k {
				r.oracleFail("oracle-stale", fmt.Sprintf("mi %v: line says %d, implementation says %d", f, k, got))
			}
		}
		return "ok"
	case "K":
		if len(a) < 3 {
			return "bad-op"
		}
		id, err := strconv.Atoi(a[0])
		if err != nil {
			return "bad-op"
		}
		mh := -1
		var m mapping.IndexMapping
		if a[1] != "-" {
			mh, err = strconv.Atoi(a[1])
			me, ok := r.maps[mh]
			if err != nil || !ok {
				return "bad-handle"
			}
			m = me.m
		}
		kind, n, rest, ok := parseStoreKind(a[2:])
		if !ok {
			return "bad-op"
		}
		e := &skEntry{mh: mh, storeKind: kind, n: n, known: true}
		isX := false
		for _, f := range rest {
			if f == "x" {
				isX = true
			}
		}
		if isX {
			e.exact = ddsketch.NewDDSketchWithExactSummaryStatistics(m, providerOf(kind, n))
		} else {
			e.plain = ddsketch.NewDDSketchFromStoreProvider(m, providerOf(kind, n))
		}
		// every other time, go through the library's convenience constructor for this configuration,
		// when there is one that yields exactly this mapping
		r.ctorMode++
		if m != nil && isX && r.ctorMode%3 == 1 {
			// …FromData: sketch and statistics must agree on emptiness; an empty pair gives a new sketch
			if x := r.exactFromData(m, kind, n); x != nil {
				e.exact = x
			}
		}
		if m != nil && r.ctorMode%2 == 0 {
			if p, x := r.viaConvenienceConstructor(m, kind, n, isX); p != nil || x != nil {
				e.plain, e.exact = p, x
			}
		}
		r.sks[id] = e
		return "ok"
	case "add":
		if len(a) != 4 {
			return "bad-op"
		}
		e, bad := r.getSk(a[0])
		if e == nil {
			return bad
		}
		v, ok1 := parseF(a[1])
		w, ok2 := parseF(a[2])
		if !ok1 || !ok2 {
			return "bad-op"
		}
		before := ""
		if r.checkFrame {
			before = r.sketchObsQuiet(e)
		}
		var err error
		mode := r.addMode
		r.addMode++
		okp, msg := guard(func() {
			if w == 1 && mode%2 == 1 {
				if e.exact != nil {
					err = e.exact.Add(v)
				} else {
					err = e.plain.Add(v)
				}
			} else if e.exact != nil {
				err = e.exact.AddWithCount(v, w)
			} else {
				err = e.plain.AddWithCount(v, w)
			}
		})
		if !okp {
			return r.poisonSk(e, "add", msg)
		}
		r.addDecision(e, v, w, err)
		if err != nil {
			if r.checkFrame {
				if after := r.sketchObsQuiet(e); after != before {
					r.oracleFail("refused-call-changed-state", fmt.Sprintf("add(%v,%v) refused with %v but state changed: before[%s] after[%s]", v, w, err, before, after))
				}
			}
			return "err:" + skErrName(err)
		}
		if w > 0 && !math.IsInf(w, 0) {
			e.inputs = append(e.inputs, wv{v, ratOf(w)})
			e.inVer++
		}
		return "ok"
	case "q":
		if len(a) != 2 {
			return "bad-op"
		}
		e, bad := r.getSk(a[0])
		if e == nil {
			return bad
		}
		q, ok := parseF(a[1])
		if !ok {
			return "bad-op"
		}
		var v float64
		var err error
		okp, msg := guard(func() {
			if e.exact != nil {
				v, err = e.exact.GetValueAtQuantile(q)
			} else {
				v, err = e.plain.GetValueAtQuantile(q)
			}
		})
		if !okp {
			return r.poisonSk(e, "quantile", msg)
		}
		r.quantileOracle(e, q, v, err)
		return showValErr(v, err)
	case "qs":
		if len(a) < 1 {
			return "bad-op"
		}
		e, bad := r.getSk(a[0])
		if e == nil {
			return bad
		}
		qs := make([]float64, 0, len(a)-1)
		for _, s := range a[1:] {
			q, ok := parseF(s)
			if !ok {
				return "bad-op"
			}
			qs = append(qs, q)
		}
		var vs []float64
		var err error
		okp, msg := guard(func() {
			if e.exact != nil {
				vs, err = e.exact.GetValuesAtQuantiles(qs)
			} else {
				vs, err = e.plain.GetValuesAtQuantiles(qs)
			}
		})
		if !okp {
			return r.poisonSk(e, "quantiles", msg)
		}
		// C12: the batch query equals the single queries
		for i, q := range qs {
			var v1 float64
			var e1 error
			if e.exact != nil {
				v1, e1 = e.exact.GetValueAtQuantile(q)
			} else {
				v1, e1 = e.plain.GetValueAtQuantile(q)
			}
			if e1 != nil {
				if err == nil {
					r.oracleFail("batch-quantile", fmt.Sprintf("single query q=%v fails (%v) but the batch succeeds", q, e1))
				}
				break
			}
			if err == nil && math.Float64bits(vs[i]) != math.Float64bits(v1) {
				r.oracleFail("batch-quantile", fmt.Sprintf("q=%v: batch %v single %v", q, vs[i], v1))
			}
		}
		if err != nil {
			return "err:" + skErrName(err)
		}
		if len(vs) == 0 {
			return "-"
		}
		for i, q := range qs { // each answer of the batch meets the accuracy guarantee (C01/C05/C11)
			r.quantileOracle(e, q, vs[i], nil)
		}
		parts := make([]string, len(vs))
		for i, v := range vs {
			parts[i] = showF(v)
		}
		return strings.Join(parts, ",")
	case "obs":
		if len(a) < 1 {
			return "bad-op"
		}
		e, bad := r.getSk(a[0])
		if e == nil {
			return bad
		}
		withSum := !(len(a) > 1 && a[1] == "nosum")
		var line string
		okp, msg := guard(func() { line = r.sketchObs(e, withSum) })
		if !okp {
			return r.poisonSk(e, "observe", msg)
		}
		return line
	case "merge":
		if len(a) != 2 {
			return "bad-op"
		}
		e, bad := r.getSk(a[0])
		if e == nil {
			return bad
		}
		o, bad := r.getSk(a[1])
		if o == nil {
			return bad
		}
		if (e.exact != nil) != (o.exact != nil) {
			return "bad-op"
		}
		argBefore := r.obsBefore(o)
		before := r.obsBefore(e)
		var err error
		okp, msg := guard(func() {
			if e.exact != nil {
				err = e.exact.MergeWith(o.exact)
			} else {
				err = e.plain.MergeWith(o.plain)
			}
		})
		if !okp {
			return r.poisonSk(e, "merge", msg)
		}
		if o != e {
			if argAfter := r.sketchObsQuiet(o); argAfter != argBefore {
				r.oracleFail("merge-changed-argument", fmt.Sprintf("before[%s] after[%s]", argBefore, argAfter))
			}
		}
		if err != nil {
			if after := r.sketchObsQuiet(e); after != before {
				r.oracleFail("refused-call-changed-state", fmt.Sprintf("merge refused (%v) but state changed", err))
			}
			return "err:" + skErrName(err)
		}
		e.inputs = append(e.inputs, o.inputs...)
		e.inVer++
		e.known = e.known && o.known
		if (o.storeKind == "low" || o.storeKind == "high") && o.storeKind != e.storeKind {
			// the argument contributes its folded content, not its raw inputs
			e.known = false
		}
		if (o.storeKind == "low" || o.storeKind == "high") && (o.n != e.n) {
			e.known = false
		}
		return "ok"
	case "copy":
		if len(a) != 2 {
			return "bad-op"
		}
		id, err := strconv.Atoi(a[0])
		e, bad := r.getSk(a[1])
		if err != nil {
			return "bad-op"
		}
		if e == nil {
			return bad
		}
		c := &skEntry{mh: e.mh, storeKind: e.storeKind, n: e.n, known: e.known, inputs: append([]wv{}, e.inputs...)}
		if e.exact != nil {
			c.exact = e.exact.Copy()
		} else {
			c.plain = e.plain.Copy()
		}
		r.sks[id] = c
		// C14: a copy answers every query like its original at the time of copying — also the sums, bit
		// for bit (NaN = NaN), and its encoding (sparse stores iterate in map order: not compared)
		if !r.quiet {
			okp, _ := guard(func() {
				if e.exact != nil {
					s1, s2 := e.exact.GetSum(), c.exact.GetSum()
					if math.Float64bits(s1) != math.Float64bits(s2) && !(math.IsNaN(s1) && math.IsNaN(s2)) {
						r.oracleFail("copy-differs", fmt.Sprintf("exact sum of the copy is %v, of the original %v", s2, s1))
					}
				}
				// (not for paginated stores either: Encode compacts their buffer, and an oracle must not
				// reorganise the sketches under test — it would hide what only shows in a particular
				// internal state)
				if e.storeKind != "sparse" && e.storeKind != "pag" {
					b1, b2 := encodeBytes(e, false), encodeBytes(c, false)
					if string(b1) != string(b2) {
						r.oracleFail("copy-differs", fmt.Sprintf("the copy encodes to %x, the original to %x", b2, b1))
					}
				}
			})
			_ = okp
		}
		return "ok"
	case "clear":
		if len(a) != 1 {
			return "bad-op"
		}
		e, bad := r.getSk(a[0])
		if e == nil && bad == "poisoned" {
			// a sketch left in an unspecified state by a refused decode: Clear() must bring it back
			if id, err := strconv.Atoi(a[0]); err == nil && r.sks[id].dirty {
				e = r.sks[id]
				e.poisoned, e.dirty = false, false
			}
		}
		if e == nil {
			return bad
		}
		if e.exact != nil {
			e.exact.Clear()
		} else {
			e.plain.Clear()
		}
		e.inputs = nil
		e.inVer++
		e.known = true
		return "ok"
	case "rew":
		if len(a) != 2 {
			return "bad-op"
		}
		e, bad := r.getSk(a[0])
		if e == nil {
			return bad
		}
		w, ok := parseF(a[1])
		if !ok {
			return "bad-op"
		}
		before := r.obsBefore(e)
		var err error
		okp, msg := guard(func() {
			if e.exact != nil {
				err = e.exact.Reweight(w)
			} else {
				err = e.plain.Reweight(w)
			}
		})
		if !okp {
			return r.poisonSk(e, "reweight", msg)
		}
		if (err != nil) != (w <= 0) && !math.IsNaN(w) {
			r.oracleFail("reweight-decision", fmt.Sprintf("factor %v: err=%v", w, err))
		}
		if err != nil {
			if after := r.sketchObsQuiet(e); after != before {
				r.oracleFail("refused-call-changed-state", fmt.Sprintf("reweight(%v) refused but state changed", w))
			}
			return "err:" + skErrName(err)
		}
		wr := ratOf(w)
		for i := range e.inputs {
			e.inputs[i].w = new(big.Rat).Mul(e.inputs[i].w, wr)
		}
		e.inVer++
		return "ok"
	case "xpanic":
		// xpanic <h> <encode|proto|foreach|chmap>: the generator saw this read-only operation panic
		if len(a) != 2 {
			return "bad-op"
		}
		e, bad := r.getSk(a[0])
		if e == nil {
			return bad
		}
		okp, msg := guard(func() {
			switch a[1] {
			case "encode":
				encodeBytes(e, false)
			case "proto":
				protoBytes(e.sk())
			default:
				e.sk().GetPositiveValueStore().ForEach(func(int, float64) bool { return false })
				e.sk().GetNegativeValueStore().ForEach(func(int, float64) bool { return false })
			}
		})
		if !okp {
			r.oracleFail("panic", a[1]+" of a sketch: "+msg)
			return "panic"
		}
		if a[1] == "chmap" {
			r.oracleFail("panic", "ChangeMapping panicked while the generator ran it")
			return "panic"
		}
		return "ok"
	case "fe":
		if len(a) != 2 {
			return "bad-op"
		}
		e, bad := r.getSk(a[0])
		if e == nil {
			return bad
		}
		k, err := strconv.Atoi(a[1])
		if err != nil {
			return "bad-op"
		}
		calls := 0
		okp, msg := guard(func() {
			f := func(value, count float64) bool {
				calls++
				return k > 0 && calls >= k
			}
			if e.exact != nil {
				e.exact.ForEach(f)
			} else {
				e.plain.ForEach(f)
			}
		})
		if !okp {
			return r.poisonSk(e, "ForEach", msg)
		}
		// direct: stops as soon as asked
		total := 0
		e.sk().ForEach(func(v, c float64) bool { total++; return false })
		want := total
		if k > 0 && k < total {
			want = k
		}
		if calls != want {
			r.oracleFail("foreach-stop", fmt.Sprintf("callback asked to stop at call %d of %d bins: %d calls made", k, total, calls))
		}
		return strconv.Itoa(calls)
	case "same":
		if len(a) != 2 {
			return "bad-op"
		}
		e1, bad := r.getSk(a[0])
		if e1 == nil {
			return bad
		}
		e2, bad := r.getSk(a[1])
		if e2 == nil {
			return bad
		}
		var d string
		okp, msg := guard(func() { d = r.sameSketch(e1, e2) })
		if !okp {
			return r.poisonSk(e1, "compare", msg)
		}
		if d != "" {
			r.oracleFail("twin-differs", d)
			return "DIFF"
		}
		return "same"
	case "encchk":
		if len(a) != 3 {
			return "bad-op"
		}
		e, bad := r.getSk(a[0])
		if e == nil {
			return bad
		}
		return r.encChk(e, a[1] == "1")
	case "dec":
		// dec <h> <m|-> <oracleMh|-> <storekind> [N] [x] <bytes>
		if len(a) < 5 {
			return "bad-op"
		}
		id, err := strconv.Atoi(a[0])
		if err != nil {
			return "bad-op"
		}
		var m mapping.IndexMapping
		if a[1] != "-" {
			mh, err := strconv.Atoi(a[1])
			me, ok := r.maps[mh]
			if err != nil || !ok {
				return "bad-handle"
			}
			m = me.m
		}
		omh := -1
		if a[2] != "-" {
			omh, err = strconv.Atoi(a[2])
			if err != nil {
				return "bad-op"
			}
		}
		kind, n, rest, ok := parseStoreKind(a[3:])
		if !ok || len(rest) < 1 {
			return "bad-op"
		}
		isX := false
		if rest[0] == "x" {
			isX = true
			rest = rest[1:]
		}
		if len(rest) != 1 {
			return "bad-op"
		}
		bs, berr := parseBytes(rest[0])
		if berr != nil {
			return "bad-op"
		}
		e := &skEntry{mh: omh, storeKind: kind, n: n}
		var derr error
		okp, msg := guard(func() {
			if isX {
				e.exact, derr = ddsketch.DecodeDDSketchWithExactSummaryStatistics(bs, providerOf(kind, n), m)
			} else {
				e.plain, derr = ddsketch.DecodeDDSketch(bs, providerOf(kind, n), m)
			}
		})
		r.sks[id] = e
		if !okp {
			return r.poisonSk(e, "decode", msg)
		}
		if !r.quiet {
			var got *ddsketch.DDSketch
			if derr == nil {
				got = e.sk()
			}
			r.decodeOracle(bs, m, isX, kind, n, skSnapshot{empty: true}, got, derr)
			// the same bytes cut from a larger buffer (spare capacity holding stale bytes) decode alike
			for _, stale := range []byte{0x00, 0x81} {
				rb := roomy(bs, stale)
				var e2 error
				var c2 float64
				ok2, msg2 := guard(func() {
					if isX {
						var x2 *ddsketch.DDSketchWithExactSummaryStatistics
						x2, e2 = ddsketch.DecodeDDSketchWithExactSummaryStatistics(rb, providerOf(kind, n), m)
						if e2 == nil {
							c2 = x2.GetCount()
						}
					} else {
						var s2 *ddsketch.DDSketch
						s2, e2 = ddsketch.DecodeDDSketch(rb, providerOf(kind, n), m)
						if e2 == nil {
							c2 = s2.GetCount()
						}
					}
				})
				if !ok2 {
					r.oracleFail("decode-reads-beyond-input", "decoding the same bytes from a buffer with spare capacity panicked: "+msg2)
				} else if (e2 == nil) != (derr == nil) || (derr == nil && c2 != func() float64 {
					if isX {
						return e.exact.GetCount()
					}
					return e.plain.GetCount()
				}()) {
					r.oracleFail("decode-reads-beyond-input", fmt.Sprintf("decoding depends on bytes beyond the input: err %v vs %v", derr, e2))
				}
			}
		}
		if derr != nil {
			e.poisoned = true
			return "err:" + skErrName(derr)
		}
		return "ok"
	case "decm":
		if len(a) != 2 {
			return "bad-op"
		}
		e, bad := r.getSk(a[0])
		if e == nil {
			return bad
		}
		bs, berr := parseBytes(a[1])
		if berr != nil {
			return "bad-op"
		}
		var derr error
		var before skSnapshot
		if r.peek() {
			before = snapshot(e)
		} else {
			before = snapshot(copyEntry(e)) // leaves the target's internal organisation alone
		}
		okp, msg := guard(func() {
			if e.exact != nil {
				derr = e.exact.DecodeAndMergeWith(bs)
			} else {
				derr = e.plain.DecodeAndMergeWith(bs)
			}
		})
		if !okp {
			return r.poisonSk(e, "decode-merge", msg)
		}
		e.known = false
		if !r.quiet {
			var got *ddsketch.DDSketch
			if derr == nil {
				got = e.sk()
			}
			r.decodeOracle(bs, e.sk().IndexMapping, e.exact != nil, e.storeKind, e.n, before, got, derr)
		}
		if derr != nil {
			e.poisoned, e.dirty = true, true
			return "err:" + skErrName(derr)
		}
		return "ok"
	}
	return "bad-op"
}

// The oracles that compare a sketch before and after an operation must not always read the sketch
// itself first: reading reorganises some stores (sorted buffers, compaction), and a defect that only
// shows in a particular internal state would be hidden. Every other time the "before" picture is
// taken from a copy.
func (r *Runner) peek() bool {
	r.peekCtr++
	return r.peekCtr%2 == 0
}

func copyEntry(e *skEntry) *skEntry {
	c := &skEntry{mh: e.mh, storeKind: e.storeKind, n: e.n}
	if e.exact != nil {
		c.exact = e.exact.Copy()
	} else {
		c.plain = e.plain.Copy()
	}
	return c
}

func (r *Runner) obsBefore(e *skEntry) string {
	if r.peek() {
		return r.sketchObsQuiet(e)
	}
	return r.sketchObsQuiet(copyEntry(e))
}

// sketchObsQuiet is the observation without running the coherence oracle (used for frame checks).
func (r *Runner) sketchObsQuiet(e *skEntry) string {
	saved := r.quiet
	r.quiet = true
	defer func() { r.quiet = saved }()
	var line string
	// the approximate sum of a sparse store depends on Go's map iteration order
	withSum := e.storeKind != "sparse" || e.exact != nil
	okp, _ := guard(func() { line = r.sketchObs(e, withSum) })
	if !okp {
		return "panic"
	}
	return line
}

// sameSketch compares everything a caller can observe on two sketches (the approximate / Kahan
// sum excepted: it legitimately depends on the order of additions).
func (r *Runner) sameSketch(e1, e2 *skEntry) string {
	saved := r.quiet
	r.quiet = true
	defer func() { r.quiet = saved }()
	o1, o2 := r.sketchObs(e1, false), r.sketchObs(e2, false)
	if o1 != o2 {
		return fmt.Sprintf("observations differ: [%s] vs [%s]", o1, o2)
	}
	for i := 0; i <= 8; i++ {
		q := float64(i) / 8
		var v1, v2 float64
		var x1, x2 error
		if e1.exact != nil {
			v1, x1 = e1.exact.GetValueAtQuantile(q)
		} else {
			v1, x1 = e1.plain.GetValueAtQuantile(q)
		}
		if e2.exact != nil {
			v2, x2 = e2.exact.GetValueAtQuantile(q)
		} else {
			v2, x2 = e2.plain.GetValueAtQuantile(q)
		}
		if (x1 == nil) != (x2 == nil) || (x1 == nil && v1 != v2) {
			return fmt.Sprintf("quantile %v differs: %v (%v) vs %v (%v)", q, v1, x1, v2, x2)
		}
	}
	return ""
}

// encodeBytes encodes sketch e as the implementation does (used by the generator to obtain bytes).
func encodeBytes(e *skEntry, omit bool) []byte {
	var b []byte
	if e.exact != nil {
		e.exact.Encode(&b, omit)
	} else {
		e.plain.Encode(&b, omit)
	}
	return b
}
