package main

// hx trans -repo /repo -out DDS/Generated
//
// A small Go -> Lean 4 translator for the numeric kernels of the library (codecs, flags, Kahan
// statistics, float bit helpers, the index-mapping formulas).  It re-reads the Go sources under
// /repo on every run and rewrites DDS/Generated/Code*.lean, so that the equivalence theorems
// (DDS/Proofs/Gen*.lean: "the regenerated function = the hand-written model function, for all
// inputs") are re-checked by the Lean kernel against what the source says NOW.
//
// Subset: functions and methods over bool / int / uint / uint64 / int64 / int32 / byte / float64 /
// []byte / *[]byte / error / small structs; assignments, if/else, for (all three forms), break,
// continue, return; calls to translated functions and to a fixed table of standard-library
// functions.  Anything else is a translation error (the tie is then broken, not guessed).
//
// Shape of the output (chosen so that proofs are inductions, not monad plumbing):
//   * mutation is shadowing (`let x := …`); a function that writes through a pointer parameter or
//     pointer receiver returns the new value in front of its results;
//   * an `if` whose branches only assign becomes `let x := if c then … else x`; an `if` containing a
//     jump duplicates the (small) continuation;
//   * every `for` becomes an auxiliary structurally recursive function on `fuel`
//     (`F.loopN : … → Nat → state → Loop state results`), `break` = `.done state`,
//     `return` = `.ret results`;
//   * index expressions and slice bounds are checked (`GoSem.idx … : Option`), out of range = `.panic`.

import (
	"fmt"
	"go/ast"
	"go/build"
	"go/constant"
	"go/importer"
	"go/parser"
	"go/printer"
	"go/token"
	"go/types"
	"math/big"
	"os"
	"path/filepath"
	"reflect"
	"sort"
	"strings"
)

type transUnit struct {
	Dir   string   // package directory relative to the repository
	File  string   // output file name (without .lean)
	NS    string   // Lean namespace
	Mode  string   // "f64": float64 is the exact model F64 ; "mops": float64 is a generic F with [MOps F] ;
	// "rat": float64 is an exact rational (bin weights inside the exact envelope, DESIGN §3 (E)); the functions
	// listed in F64Funcs are translated in "f64" mode (genuine float arithmetic, e.g. getNewLength)
	F64Funcs map[string]bool
	// Specialise: "T.M" -> parameter name -> concrete type name: the interface-typed parameter is taken to hold a
	// *T' of this package (the type assertion `o, ok := p.(*T')` succeeds, `if !ok {…}` is dead code)
	Specialise map[string]map[string]string
	Funcs []string // functions ("F") and methods ("T.M") to translate, dependencies first
	Vars  []string // package-level variables with initialisers to translate (in order, before Funcs that use them)
	// interfaces and types of other packages (only for units that use them)
	TypeParams  string               // binders added to every definition, e.g. "{M S : Type} [MapI M] [StoreI S]"
	JoinIfs     bool                 // an `if` without jumps whose branches contain fallible steps is joined through Res instead of duplicating the continuation
	TypeArgs    string               // named arguments for calls of the auxiliary loop functions, e.g. "(M := M) (S := S)" (a loop that does not mention the type variables could not infer them)
	StructArgs  string               // arguments of the unit's structures, e.g. "M S"
	Ifaces      map[string]ifaceSpec // "mapping.IndexMapping" -> class
	ExternTypes map[string]string    // "stat.SummaryStatistics" -> Lean type
	ExternFuncs map[string]externFn  // "stat.SummaryStatistics.Add" / "stat.NewSummaryStatistics" -> Lean function
	ExternVars  map[string]string    // "encoding.BinEncodingIndexDeltas" -> Lean constant (variables of other translated packages)
	Imports     []string
	Desugar     *desugarSpec // a Go -> Go pre-pass on one file that removes aliasing (see the end of this file)
	// Base: this unit EXTENDS another unit of the same package (same mode, classes, externs): the functions, variables
	// and structures of the base are analysed but not emitted again; they are referred to by their names in the base's
	// namespace (the base's file is imported).  A key listed again in Funcs is regenerated here and shadows the base's.
	Base *transUnit
	// Stateful: "T.M" -> name of a function-typed parameter that is a STATE-PASSING callback (see "state-passing
	// callbacks" below): the function becomes polymorphic in {σ : Type}, takes the state `«st» : σ` right before that
	// parameter, the parameter has type σ → args → Res (σ × results), and the final state is returned first.
	Stateful map[string]string
	// Nullable: "F" / "T.M" -> names of parameters of type pointer-to-mirrored-structure (ExternTypes) that may be nil:
	// such a parameter is an `Option`; `p == nil` is `isNone`, any other use dereferences it (nil = panic).  The
	// sub-message fields of the mirrored structures are always nullable.
	Nullable map[string][]string
	// IfaceSum: an interface of this package whose values are built from SEVERAL concrete types (`mapping.FromProto`
	// returns a different mapping per interpolation) -> the concrete (pointer-to-)struct types.  The unit emits
	// `inductive I | nil | T1 (v : T1) | …`; a result declared with the interface has this type, every returned value
	// is wrapped in the constructor of its static type.
	IfaceSum map[string][]string
}

// an interface of another package: a type variable with a class of method signatures (DDS/Model/GoIface.lean);
// Mutating lists the methods that change their receiver (the translated call returns the new receiver first)
type ifaceSpec struct {
	TyVar     string
	Class     string
	Mutating  map[string]bool
	MutParams map[string][]int // method -> indexes of the (non-receiver) parameters it writes through
	// methods that live in another class than Class (a second class next to it, e.g. the protobuf methods
	// "ToProto" -> "GoPb.StorePbI"; the unit lists that class among its TypeParams)
	MethodClass map[string]string
}

type externFn struct {
	Lean      string
	Mutating  bool  // a method that changes its receiver
	Res       bool  // fallible (takes fuel, returns Res)
	MutParams []int // plain function: indexes of the parameters it writes through (returned first)
	Ord       bool  // ranges over a map: takes the iteration-order oracle `ord` (after fuel)
	OptParams []int // parameters that are nullable pointers to mirrored structures (`Option`)
}

var transUnits = []transUnit{
	{Dir: "ddsketch/encoding", File: "CodeEncoding", NS: "DDS.Gen.Encoding", Mode: "f64",
		Funcs: []string{
			"EncodeUvarint64", "DecodeUvarint64", "EncodeVarint64", "DecodeVarint64", "DecodeVarint32",
			"EncodeFloat64LE", "DecodeFloat64LE", "EncodeVarfloat64", "DecodeVarfloat64",
			"initUvarint64Sizes", "initVarfloat64Sizes", "Uvarint64Size", "Varint64Size", "Varfloat64Size",
			"NewFlag", "Flag.Type", "Flag.SubFlag", "newSubFlag", "EncodeFlag", "DecodeFlag",
		},
		Vars: []string{"errVarint32Overflow", "uvarint64Sizes", "varfloat64Sizes",
			"flagTypeSketchFeatures", "FlagTypeIndexMapping", "FlagTypePositiveStore", "FlagTypeNegativeStore",
			"FlagZeroCountVarFloat", "FlagCount", "FlagSum", "FlagMin", "FlagMax",
			"FlagIndexMappingBaseLogarithmic", "FlagIndexMappingBaseLinear", "FlagIndexMappingBaseQuadratic",
			"FlagIndexMappingBaseCubic", "FlagIndexMappingBaseQuartic",
			"BinEncodingIndexDeltasAndCounts", "BinEncodingIndexDeltas", "BinEncodingContiguousCounts"}},
	{Dir: "ddsketch/stat", File: "CodeStat", NS: "DDS.Gen.Stat", Mode: "f64",
		Funcs: []string{
			"NewSummaryStatistics", "NewSummaryStatisticsFromData",
			"SummaryStatistics.Count", "SummaryStatistics.Sum", "SummaryStatistics.Min", "SummaryStatistics.Max",
			"SummaryStatistics.sumWithCompensation", "SummaryStatistics.AddToCount", "SummaryStatistics.AddToSum",
			"SummaryStatistics.Add", "SummaryStatistics.MergeWith", "SummaryStatistics.Reweight",
			"SummaryStatistics.Rescale", "SummaryStatistics.Clear", "SummaryStatistics.Copy",
		}},
	{Dir: "ddsketch/mapping", File: "CodeBits", NS: "DDS.Gen.Bits", Mode: "f64",
		Funcs: []string{"getExponent", "getSignificandPlusOne", "buildFloat64", "withinTolerance"}},
	{Dir: "ddsketch/mapping", File: "CodeMapping", NS: "DDS.Gen.Mapping", Mode: "mops",
		Funcs: []string{
			"NewLogarithmicMappingWithGamma", "NewLogarithmicMapping",
			"LogarithmicMapping.Index", "LogarithmicMapping.LowerBound", "LogarithmicMapping.RelativeAccuracy",
			"LogarithmicMapping.Value", "LogarithmicMapping.MinIndexableValue", "LogarithmicMapping.MaxIndexableValue",
			"NewLinearlyInterpolatedMappingWithGamma", "NewLinearlyInterpolatedMapping",
			"LinearlyInterpolatedMapping.approximateLog", "LinearlyInterpolatedMapping.approximateInverseLog",
			"LinearlyInterpolatedMapping.Index", "LinearlyInterpolatedMapping.LowerBound",
			"LinearlyInterpolatedMapping.RelativeAccuracy", "LinearlyInterpolatedMapping.Value",
			"LinearlyInterpolatedMapping.MinIndexableValue", "LinearlyInterpolatedMapping.MaxIndexableValue",
			"NewCubicallyInterpolatedMappingWithGamma", "NewCubicallyInterpolatedMapping",
			"CubicallyInterpolatedMapping.approximateLog", "CubicallyInterpolatedMapping.approximateInverseLog",
			"CubicallyInterpolatedMapping.Index", "CubicallyInterpolatedMapping.LowerBound",
			"CubicallyInterpolatedMapping.RelativeAccuracy", "CubicallyInterpolatedMapping.Value",
			"CubicallyInterpolatedMapping.MinIndexableValue", "CubicallyInterpolatedMapping.MaxIndexableValue",
		}},
}

var sketchUnit = transUnit{Dir: "ddsketch", File: "CodeSketch", NS: "DDS.Gen.Sketch", Mode: "f64",
	TypeParams: "{M S : Type} [MapI M] [StoreI S] [Inhabited M] [Inhabited S]", StructArgs: "M S", TypeArgs: "(M := M) (S := S)", JoinIfs: true,
	Imports: []string{"DDS.Model.GoIface", "DDS.Generated.CodeStat", "DDS.Generated.CodeEncoding"},
	Ifaces: map[string]ifaceSpec{
		"mapping.IndexMapping": {TyVar: "M", Class: "MapI", Mutating: map[string]bool{}, MutParams: map[string][]int{"Encode": {0}}},
		"store.Store": {TyVar: "S", Class: "StoreI", Mutating: map[string]bool{"Add": true, "AddWithCount": true, "Clear": true,
			"MergeWith": true, "Reweight": true, "Encode": true, "DecodeAndMergeWith": true},
			MutParams: map[string][]int{"Encode": {0}, "DecodeAndMergeWith": {0}}},
	},
	ExternTypes: map[string]string{"stat.SummaryStatistics": "DDS.Gen.Stat.SummaryStatistics",
		"encoding.Flag": "DDS.Gen.Encoding.Flag", "encoding.FlagType": "DDS.Gen.Encoding.FlagType",
		"encoding.SubFlag": "DDS.Gen.Encoding.SubFlag"},
	ExternVars: map[string]string{
		"encoding.FlagTypeIndexMapping":  "DDS.Gen.Encoding.FlagTypeIndexMapping",
		"encoding.FlagZeroCountVarFloat": "DDS.Gen.Encoding.FlagZeroCountVarFloat",
		"encoding.FlagTypePositiveStore": "DDS.Gen.Encoding.FlagTypePositiveStore",
		"encoding.FlagTypeNegativeStore": "DDS.Gen.Encoding.FlagTypeNegativeStore",
		"encoding.FlagCount":             "DDS.Gen.Encoding.FlagCount",
		"encoding.FlagSum":               "DDS.Gen.Encoding.FlagSum",
		"encoding.FlagMin":               "DDS.Gen.Encoding.FlagMin",
		"encoding.FlagMax":               "DDS.Gen.Encoding.FlagMax"},
	ExternFuncs: map[string]externFn{
		"encoding.EncodeFlag":       {Lean: "DDS.Gen.Encoding.EncodeFlag", MutParams: []int{0}},
		"encoding.EncodeVarfloat64": {Lean: "DDS.Gen.Encoding.EncodeVarfloat64", Res: true, MutParams: []int{0}},
		"encoding.EncodeFloat64LE":  {Lean: "DDS.Gen.Encoding.EncodeFloat64LE", Res: true, MutParams: []int{0}},
		"encoding.DecodeFlag":       {Lean: "DDS.Gen.Encoding.DecodeFlag", Res: true, MutParams: []int{0}},
		"encoding.DecodeVarfloat64": {Lean: "DDS.Gen.Encoding.DecodeVarfloat64", Res: true, MutParams: []int{0}},
		"encoding.Flag.Type":        {Lean: "DDS.Gen.Encoding.Flag.Type"},
		"encoding.Flag.SubFlag":     {Lean: "DDS.Gen.Encoding.Flag.SubFlag"},
		"mapping.Decode":            {Lean: "MapI.Decode (M := M)", MutParams: []int{0}},
		"stat.NewSummaryStatistics":          {Lean: "DDS.Gen.Stat.NewSummaryStatistics"},
		"stat.SummaryStatistics.Count":       {Lean: "DDS.Gen.Stat.SummaryStatistics.Count"},
		"stat.SummaryStatistics.Sum":         {Lean: "DDS.Gen.Stat.SummaryStatistics.Sum"},
		"stat.SummaryStatistics.Min":         {Lean: "DDS.Gen.Stat.SummaryStatistics.Min"},
		"stat.SummaryStatistics.Max":         {Lean: "DDS.Gen.Stat.SummaryStatistics.Max"},
		"stat.SummaryStatistics.Copy":        {Lean: "DDS.Gen.Stat.SummaryStatistics.Copy"},
		"stat.SummaryStatistics.Add":         {Lean: "DDS.Gen.Stat.SummaryStatistics.Add", Mutating: true},
		"stat.SummaryStatistics.MergeWith":   {Lean: "DDS.Gen.Stat.SummaryStatistics.MergeWith", Mutating: true},
		"stat.SummaryStatistics.Reweight":    {Lean: "DDS.Gen.Stat.SummaryStatistics.Reweight", Mutating: true},
		"stat.SummaryStatistics.Rescale":     {Lean: "DDS.Gen.Stat.SummaryStatistics.Rescale", Mutating: true},
		"stat.SummaryStatistics.Clear":       {Lean: "DDS.Gen.Stat.SummaryStatistics.Clear", Mutating: true},
		"stat.SummaryStatistics.AddToCount":  {Lean: "DDS.Gen.Stat.SummaryStatistics.AddToCount", Mutating: true},
		"stat.SummaryStatistics.AddToSum":    {Lean: "DDS.Gen.Stat.SummaryStatistics.AddToSum", Mutating: true},
	},
	Vars: []string{"ErrUntrackableNaN", "ErrUntrackableTooLow", "ErrUntrackableTooHigh", "ErrNegativeCount", "errEmptySketch", "errUnknownFlag"},
	Funcs: []string{
		"NewDDSketch", "DDSketch.AddWithCount", "DDSketch.Add", "DDSketch.Copy", "DDSketch.Clear",
		"DDSketch.GetCount", "DDSketch.GetZeroCount", "DDSketch.IsEmpty", "DDSketch.GetValueAtQuantile",
		"DDSketch.GetMaxValue", "DDSketch.GetMinValue", "DDSketch.MergeWith", "DDSketch.Reweight",
		"NewDDSketchWithExactSummaryStatisticsFromData",
		"DDSketchWithExactSummaryStatistics.IsEmpty", "DDSketchWithExactSummaryStatistics.GetCount",
		"DDSketchWithExactSummaryStatistics.GetZeroCount", "DDSketchWithExactSummaryStatistics.GetSum",
		"DDSketchWithExactSummaryStatistics.GetMinValue", "DDSketchWithExactSummaryStatistics.GetMaxValue",
		"DDSketchWithExactSummaryStatistics.GetValueAtQuantile", "DDSketchWithExactSummaryStatistics.Clear",
		"DDSketchWithExactSummaryStatistics.Add", "DDSketchWithExactSummaryStatistics.AddWithCount",
		"DDSketchWithExactSummaryStatistics.MergeWith", "DDSketchWithExactSummaryStatistics.Copy",
		"DDSketchWithExactSummaryStatistics.Reweight",
		"DDSketch.GetValuesAtQuantiles", "DDSketchWithExactSummaryStatistics.GetValuesAtQuantiles",
		"DDSketch.Encode", "DDSketchWithExactSummaryStatistics.Encode",
		"DDSketch.decodeAndMergeWith", "DDSketch.DecodeAndMergeWith",
		"changeStoreMapping", "DDSketch.ChangeMapping",
	}}

var datasetUnit = transUnit{Dir: "dataset", File: "CodeDataset", NS: "DDS.Gen.Dataset", Mode: "f64",
	Imports:     []string{"DDS.Generated.CodeStat"},
	ExternTypes: sketchUnit.ExternTypes, ExternFuncs: sketchUnit.ExternFuncs,
	Funcs: []string{"NewDataset", "Dataset.Add", "Dataset.sort", "Dataset.LowerQuantile", "Dataset.Quantile", "Dataset.UpperQuantile",
		"Dataset.Min", "Dataset.Max", "Dataset.Sum", "Dataset.Merge"}}

// the dense store and its two collapsing variants: bin weights are exact rationals (mode "rat"), the growth
// policy `getNewLength` is genuine float64 arithmetic; `MergeWith` is translated for an argument of the
// receiver's own type (the fast path; the `ForEach` fallback for other kinds is a closure and stays with the
// hand-written model and the correspondence run)
var denseUnit = transUnit{Dir: "ddsketch/store", File: "CodeDense", NS: "DDS.Gen.Dense", Mode: "rat",
	F64Funcs: map[string]bool{"DenseStore.getNewLength": true},
	Imports:  []string{"DDS.Generated.CodeEncoding"},
	ExternTypes: map[string]string{"encoding.SubFlag": "DDS.Gen.Encoding.SubFlag", "encoding.Flag": "DDS.Gen.Encoding.Flag",
		"encoding.FlagType": "DDS.Gen.Encoding.FlagType"},
	ExternVars: map[string]string{
		"encoding.BinEncodingIndexDeltasAndCounts": "DDS.Gen.Encoding.BinEncodingIndexDeltasAndCounts",
		"encoding.BinEncodingIndexDeltas":          "DDS.Gen.Encoding.BinEncodingIndexDeltas",
		"encoding.BinEncodingContiguousCounts":     "DDS.Gen.Encoding.BinEncodingContiguousCounts"},
	ExternFuncs: map[string]externFn{
		"encoding.NewFlag":          {Lean: "DDS.Gen.Encoding.NewFlag"},
		"encoding.EncodeFlag":       {Lean: "DDS.Gen.Encoding.EncodeFlag", MutParams: []int{0}},
		"encoding.EncodeUvarint64":  {Lean: "DDS.Gen.Encoding.EncodeUvarint64", Res: true, MutParams: []int{0}},
		"encoding.EncodeVarint64":   {Lean: "DDS.Gen.Encoding.EncodeVarint64", Res: true, MutParams: []int{0}},
		"encoding.EncodeVarfloat64": {Lean: "DDS.Gen.Encoding.EncodeVarfloat64", Res: true, MutParams: []int{0}},
		"encoding.Uvarint64Size":    {Lean: "DDS.Gen.Encoding.Uvarint64Size", Res: true},
		"encoding.Varint64Size":     {Lean: "DDS.Gen.Encoding.Varint64Size", Res: true},
		"encoding.Varfloat64Size":   {Lean: "DDS.Gen.Encoding.Varfloat64Size", Res: true},
	},
	Specialise: map[string]map[string]string{
		"DenseStore.MergeWith":                  {"other": "DenseStore"},
		"CollapsingLowestDenseStore.MergeWith":  {"other": "CollapsingLowestDenseStore"},
		"CollapsingHighestDenseStore.MergeWith": {"other": "CollapsingHighestDenseStore"},
	},
	Vars: []string{"errUndefinedMinIndex", "errUndefinedMaxIndex"},
	Funcs: []string{
		"min", "max", "Bin.Index", "Bin.Count",
		"NewDenseStore", "DenseStore.IsEmpty", "DenseStore.TotalCount", "DenseStore.MinIndex", "DenseStore.MaxIndex",
		"DenseStore.getNewLength", "DenseStore.resetBins", "DenseStore.shiftCounts", "DenseStore.centerCounts",
		"DenseStore.adjust", "DenseStore.extendRange", "DenseStore.normalize", "DenseStore.AddWithCount",
		"DenseStore.Add", "DenseStore.AddBin", "DenseStore.KeyAtRank", "DenseStore.MergeWith", "DenseStore.Copy",
		"DenseStore.Clear", "DenseStore.Reweight",
		"DenseStore.encodeDensely", "DenseStore.encodeSparsely", "DenseStore.Encode",
		"NewCollapsingLowestDenseStore", "CollapsingLowestDenseStore.getNewLength", "CollapsingLowestDenseStore.adjust",
		"CollapsingLowestDenseStore.extendRange", "CollapsingLowestDenseStore.normalize",
		"CollapsingLowestDenseStore.AddWithCount", "CollapsingLowestDenseStore.Add", "CollapsingLowestDenseStore.AddBin",
		"CollapsingLowestDenseStore.MergeWith", "CollapsingLowestDenseStore.Copy", "CollapsingLowestDenseStore.Clear",
		"NewCollapsingHighestDenseStore", "CollapsingHighestDenseStore.getNewLength", "CollapsingHighestDenseStore.adjust",
		"CollapsingHighestDenseStore.extendRange", "CollapsingHighestDenseStore.normalize",
		"CollapsingHighestDenseStore.AddWithCount", "CollapsingHighestDenseStore.Add", "CollapsingHighestDenseStore.AddBin",
		"CollapsingHighestDenseStore.MergeWith", "CollapsingHighestDenseStore.Copy", "CollapsingHighestDenseStore.Clear",
	}}

// the generic bin decoder of the stores (`store.DecodeAndMergeWith`, used by the dense, collapsing and sparse
// stores, and by the paginated store for one of the three layouts), over the regenerated codecs and any store
var storeDecodeUnit = transUnit{Dir: "ddsketch/store", File: "CodeStoreDecode", NS: "DDS.Gen.StoreDecode", Mode: "f64",
	TypeParams: "{S : Type} [StoreI S]",
	Imports:    []string{"DDS.Model.GoIface", "DDS.Generated.CodeEncoding"},
	Ifaces: map[string]ifaceSpec{
		"store.Store": {TyVar: "S", Class: "StoreI", Mutating: map[string]bool{"Add": true, "AddWithCount": true, "Clear": true,
			"MergeWith": true, "Reweight": true}},
	},
	ExternTypes: map[string]string{"encoding.SubFlag": "DDS.Gen.Encoding.SubFlag", "encoding.Flag": "DDS.Gen.Encoding.Flag",
		"encoding.FlagType": "DDS.Gen.Encoding.FlagType"},
	ExternVars: map[string]string{
		"encoding.BinEncodingIndexDeltasAndCounts": "DDS.Gen.Encoding.BinEncodingIndexDeltasAndCounts",
		"encoding.BinEncodingIndexDeltas":          "DDS.Gen.Encoding.BinEncodingIndexDeltas",
		"encoding.BinEncodingContiguousCounts":     "DDS.Gen.Encoding.BinEncodingContiguousCounts"},
	ExternFuncs: map[string]externFn{
		"encoding.DecodeUvarint64":  {Lean: "DDS.Gen.Encoding.DecodeUvarint64", Res: true, MutParams: []int{0}},
		"encoding.DecodeVarint64":   {Lean: "DDS.Gen.Encoding.DecodeVarint64", Res: true, MutParams: []int{0}},
		"encoding.DecodeVarfloat64": {Lean: "DDS.Gen.Encoding.DecodeVarfloat64", Res: true, MutParams: []int{0}},
	},
	Funcs: []string{"DecodeAndMergeWith"}}

// the sparse store: a Go map from index to weight (exact rationals); every function that ranges over the map
// takes the iteration-order oracle.  `MergeWith`, `ForEach`, `Bins` and the protobuf methods are closures.
var sparseUnit = transUnit{Dir: "ddsketch/store", File: "CodeSparse", NS: "DDS.Gen.Sparse", Mode: "rat",
	Imports:     denseUnit.Imports,
	ExternTypes: denseUnit.ExternTypes, ExternVars: denseUnit.ExternVars, ExternFuncs: denseUnit.ExternFuncs,
	Vars: []string{"errUndefinedMinIndex", "errUndefinedMaxIndex"},
	Funcs: []string{"NewSparseStore", "SparseStore.Add", "SparseStore.AddWithCount", "SparseStore.AddBin",
		"SparseStore.orderedBins", "SparseStore.Copy", "SparseStore.Clear", "SparseStore.IsEmpty",
		"SparseStore.MaxIndex", "SparseStore.MinIndex", "SparseStore.TotalCount", "SparseStore.KeyAtRank",
		"SparseStore.Reweight", "SparseStore.Encode"}}

// identity of a mapping: the tolerance-based equality (for an argument of the receiver's own kind; another kind
// is `false` by the failed type assertion, which the model states directly) and the binary encoding
var mapIdUnit = transUnit{Dir: "ddsketch/mapping", File: "CodeMapId", NS: "DDS.Gen.MapId", Mode: "f64",
	Imports: []string{"DDS.Generated.CodeEncoding"},
	Specialise: map[string]map[string]string{
		"LogarithmicMapping.Equals":           {"other": "LogarithmicMapping"},
		"LinearlyInterpolatedMapping.Equals":  {"other": "LinearlyInterpolatedMapping"},
		"CubicallyInterpolatedMapping.Equals": {"other": "CubicallyInterpolatedMapping"},
	},
	ExternTypes: map[string]string{"encoding.Flag": "DDS.Gen.Encoding.Flag"},
	ExternVars: map[string]string{
		"encoding.FlagIndexMappingBaseLogarithmic": "DDS.Gen.Encoding.FlagIndexMappingBaseLogarithmic",
		"encoding.FlagIndexMappingBaseLinear":      "DDS.Gen.Encoding.FlagIndexMappingBaseLinear",
		"encoding.FlagIndexMappingBaseCubic":       "DDS.Gen.Encoding.FlagIndexMappingBaseCubic"},
	ExternFuncs: map[string]externFn{
		"encoding.EncodeFlag":      {Lean: "DDS.Gen.Encoding.EncodeFlag", MutParams: []int{0}},
		"encoding.EncodeFloat64LE": {Lean: "DDS.Gen.Encoding.EncodeFloat64LE", Res: true, MutParams: []int{0}},
	},
	Funcs: []string{"withinTolerance",
		"LogarithmicMapping.Equals", "LogarithmicMapping.Encode",
		"LinearlyInterpolatedMapping.Equals", "LinearlyInterpolatedMapping.Encode",
		"CubicallyInterpolatedMapping.Equals", "CubicallyInterpolatedMapping.Encode"}}

func init() {
	transUnits = append(transUnits, sketchUnit, datasetUnit, denseUnit, storeDecodeUnit, mapIdUnit, sparseUnit)
}

type trErr struct{ msg string }

type funcInfo struct {
	key     string // "F" or "T.M"
	lean    string // Lean name
	decl    *ast.FuncDecl
	sig     *types.Signature
	recv    *types.Var // nil for plain functions
	res     bool       // returns Res (may panic / has loops)
	mutated []int      // indexes into allParams() that are written through
	mutSet  map[*types.Var]bool
	extern  bool // an interface method or a function of another translated package
	noFuel  bool // a function value held in a parameter: already applied to the caller's fuel
	ord     bool // ranges over a map (directly or through a callee): takes the iteration-order oracle `ord`
	oracle  string          // this "function" is an oracle of the desugared source: the name of the Lean parameter that stands for it
	oracles map[string]bool // the oracles the function needs (directly or through a callee): extra parameters, in the order of tr.oracleList
	prior      bool        // a function of the base unit: analysed, not emitted
	stateful   bool        // takes a state-passing callback: {σ}, `«st»` before the parameter stIdx, returns the final state first
	stIdx      int         // index (in sig.Params()) of the state-passing parameter
	stVar      *types.Var  // the synthetic local `«st» : σ` of a stateful function
	stCallback bool        // a function value in state-passing form: called as `f «st» args`, returns the new state first
	optParams  map[int]bool // extern: indexes (in sig.Params()) of the nullable-pointer parameters (`Option`)
	retState   []string    // what a `return` puts in front (state of a stateful function / of a state-passing literal)
	retStateTy []string
}

// the type of the threaded state of a stateful function (rendered as the type variable σ)
var sigmaType = types.NewNamed(types.NewTypeName(token.NoPos, nil, "σ", nil), types.NewStruct(nil, nil), nil)

func (f *funcInfo) allParams() []*types.Var {
	var ps []*types.Var
	if f.recv != nil {
		ps = append(ps, f.recv)
	}
	for i := 0; i < f.sig.Params().Len(); i++ {
		ps = append(ps, f.sig.Params().At(i))
	}
	return ps
}

type tr struct {
	unit    transUnit
	fset    *token.FileSet
	info    *types.Info
	pkg     *types.Package
	files   []*ast.File
	funcs   map[string]*funcInfo      // by key
	byObj   map[types.Object]*funcInfo // by *types.Func
	vars    map[types.Object]string   // translated package-level vars -> lean name
	varRes  map[types.Object]bool     // package var is a Res value
	structs map[string]bool           // emitted struct names
	out     strings.Builder
	aux     strings.Builder // auxiliary loop functions of the current function
	cur     *funcInfo
	nLoop   int
	nTmp    int
	knownTrue map[types.Object]bool // `ok` of a type assertion on a specialised parameter
	lits      map[*ast.FuncLit]*funcInfo // function literals passed as arguments, lifted to top-level definitions
	litsOf    map[string][]string        // enclosing function -> keys of its lifted literals
	forEachRange map[*ast.RangeStmt]string // synthetic `range` statements standing for `x.ForEach(func…{…; return false})`: the class
	oracleList []*funcInfo // the oracles of the desugared source, in parameter order
	desugared  string      // text of the desugared file (written next to the generated Lean file)
}

func (t *tr) fail(n ast.Node, format string, a ...interface{}) {
	pos := ""
	if n != nil {
		p := t.fset.Position(n.Pos())
		pos = fmt.Sprintf("%s:%d: ", filepath.Base(p.Filename), p.Line)
	}
	panic(trErr{pos + fmt.Sprintf(format, a...)})
}

var leanKeywords = map[string]bool{"end": true, "from": true, "at": true, "open": true, "fun": true, "do": true,
	"then": true, "else": true, "if": true, "let": true, "in": true, "instance": true, "def": true, "theorem": true,
	"match": true, "with": true, "have": true, "show": true, "by": true, "where": true, "structure": true,
	"namespace": true, "section": true, "variable": true, "import": true, "mut": true, "for": true, "return": true,
	"class": true, "deriving": true, "type": true, "Type": true, "Prop": true, "Sort": true, "fuel": true,
	"max": false, "min": false, "byte": false}

func lname(s string) string {
	if leanKeywords[s] {
		return "«" + s + "»"
	}
	return s
}

// ---------------------------------------------------------------- types

func (t *tr) rat() bool {
	return t.unit.Mode == "rat" && !(t.cur != nil && t.unit.F64Funcs[t.cur.key])
}

func (t *tr) fl() string {
	if t.unit.Mode == "mops" {
		return "F"
	}
	if t.rat() {
		return "Rat"
	}
	return "F64"
}

func (t *tr) leanType(ty types.Type) string {
	if ty == types.Type(sigmaType) {
		return "σ"
	}
	switch u := ty.(type) {
	case *types.Basic:
		switch u.Kind() {
		case types.Bool, types.UntypedBool:
			return "Bool"
		case types.Int, types.UntypedInt:
			return "Int"
		case types.Uint, types.Uint64, types.Int64:
			return "BitVec 64"
		case types.Int32:
			return "BitVec 32"
		case types.Uint8:
			return "BitVec 8"
		case types.Float64, types.UntypedFloat:
			return t.fl()
		}
	case *types.Pointer:
		return t.leanType(u.Elem())
	case *types.Slice:
		return "List (" + t.leanType(u.Elem()) + ")"
	case *types.Array:
		return "List (" + t.leanType(u.Elem()) + ")"
	case *types.Signature:
		return t.sigType(u, false)
	case *types.Map:
		if !isInt(u.Key()) && basicKind(u.Key()) != types.Int32 {
			t.fail(nil, "map with a non-int key")
		}
		return "(GoSem.GoMap (" + t.leanType(u.Elem()) + "))"
	case *types.Named:
		if u.Obj().Name() == "error" {
			return "GoErr"
		}
		if u.Obj().Pkg() != nil && u.Obj().Pkg() != t.pkg {
			key := u.Obj().Pkg().Name() + "." + u.Obj().Name()
			if is, ok := t.unit.Ifaces[key]; ok {
				return is.TyVar
			}
			if lt, ok := t.unit.ExternTypes[key]; ok {
				return lt
			}
		}
		if _, isI := u.Underlying().(*types.Interface); isI && u.Obj().Pkg() == t.pkg {
			if is, ok := t.unit.Ifaces[t.pkg.Name()+"."+u.Obj().Name()]; ok {
				return is.TyVar
			}
			if _, ok := t.unit.IfaceSum[u.Obj().Name()]; ok {
				return t.sumType(u.Obj().Name())
			}
		}
		if _, ok := u.Underlying().(*types.Struct); ok && u.Obj().Pkg() == t.pkg {
			if t.unit.Mode == "mops" {
				return "(" + t.structNS() + "." + u.Obj().Name() + " F)"
			}
			if t.unit.StructArgs != "" {
				return "(" + t.structNS() + "." + u.Obj().Name() + " " + t.unit.StructArgs + ")"
			}
			return t.structNS() + "." + u.Obj().Name()
		}
		return t.leanType(u.Underlying())
	}
	panic(trErr{"unsupported type " + ty.String()})
}

func (t *tr) sumType(name string) string {
	if t.unit.Mode == "mops" {
		return "(" + t.unit.NS + "." + name + " F)"
	}
	return t.unit.NS + "." + name
}

// a value returned for result i of the current function, whose static type is `from` (nil: the literal `nil`): wrapped
// in the constructor of the sum when the result is an interface of IfaceSum
func (t *tr) sumWrap(n ast.Node, i int, v string, from types.Type) string {
	nm, ok := t.cur.sig.Results().At(i).Type().(*types.Named)
	if !ok || nm.Obj().Pkg() != t.pkg {
		return v
	}
	alts, ok := t.unit.IfaceSum[nm.Obj().Name()]
	if !ok {
		return v
	}
	if from == nil {
		return t.unit.NS + "." + nm.Obj().Name() + ".nil"
	}
	if types.Identical(from, nm) {
		return v
	}
	if p, ok := from.(*types.Pointer); ok {
		from = p.Elem()
	}
	if fn, ok := from.(*types.Named); ok && fn.Obj().Pkg() == t.pkg {
		for _, a := range alts {
			if a == fn.Obj().Name() {
				return "(" + t.unit.NS + "." + nm.Obj().Name() + "." + a + " " + v + ")"
			}
		}
	}
	t.fail(n, "value of type %s returned for the interface %s is not one of its declared concrete types", from, nm.Obj().Name())
	return ""
}

func (t *tr) emitSums() {
	var names []string
	for n := range t.unit.IfaceSum {
		names = append(names, n)
	}
	sort.Strings(names)
	for _, n := range names {
		fmt.Fprintf(&t.out, "/-- a value of the Go interface `%s`: nil, or a pointer to a value of one of these concrete types -/\n", n)
		if t.unit.Mode == "mops" {
			fmt.Fprintf(&t.out, "inductive %s (F : Type) where\n", n)
		} else {
			fmt.Fprintf(&t.out, "inductive %s where\n", n)
		}
		t.out.WriteString("  | nil\n")
		for _, a := range t.unit.IfaceSum[n] {
			tn, ok := t.pkg.Scope().Lookup(a).(*types.TypeName)
			if !ok {
				panic(trErr{"IfaceSum: type " + a + " not found"})
			}
			fmt.Fprintf(&t.out, "  | %s (v : %s)\n", a, t.leanType(tn.Type()))
		}
		t.out.WriteString("\n")
	}
}

// a function value: pointer parameters are passed by value and returned first; always fallible.  In state-passing
// form the state comes first, in the arguments and in the results; a function without parameters takes a Unit.
func (t *tr) sigType(u *types.Signature, stateful bool) string {
	var ps, rs []string
	if stateful {
		ps, rs = []string{"σ"}, []string{"σ"}
	}
	for i := 0; i < u.Params().Len(); i++ {
		pt := u.Params().At(i).Type()
		ps = append(ps, t.leanType(pt))
		if _, ok := pt.(*types.Pointer); ok {
			rs = append(rs, t.leanType(pt))
		}
	}
	if len(ps) == 0 {
		ps = []string{"Unit"}
	}
	for i := 0; i < u.Results().Len(); i++ {
		rs = append(rs, t.leanType(u.Results().At(i).Type()))
	}
	if len(rs) == 0 {
		rs = []string{"Unit"}
	}
	return "(" + strings.Join(ps, " → ") + " → Res (" + strings.Join(rs, " × ") + "))"
}

// the type of a local variable or parameter (a state-passing callback has its own function type)
func (t *tr) varType(v *types.Var) string {
	if pf := t.byObj[v]; pf != nil && pf.stCallback {
		return t.sigType(pf.sig, true)
	}
	return t.leanType(v.Type())
}

// the namespace of the unit's structures (those of the base, for a unit that extends another)
func (t *tr) structNS() string {
	if b := t.unit.Base; b != nil {
		for b.Base != nil {
			b = b.Base
		}
		return b.NS
	}
	return t.unit.NS
}

// binders / named arguments for the type variables of the current function (the unit's, plus σ in a stateful function)
func (t *tr) typeParams() string {
	s := t.unit.TypeParams
	if t.cur != nil && t.cur.stVar != nil {
		if s != "" {
			s += " "
		}
		s += "{σ : Type}"
	}
	return s
}

func (t *tr) typeArgs() string {
	s := t.unit.TypeArgs
	if t.cur != nil && t.cur.stVar != nil {
		if s != "" {
			s += " "
		}
		s += "(σ := σ)"
	}
	return s
}

func isFloat(ty types.Type) bool {
	b, ok := ty.Underlying().(*types.Basic)
	return ok && (b.Kind() == types.Float64 || b.Kind() == types.UntypedFloat)
}
func basicKind(ty types.Type) types.BasicKind {
	if b, ok := ty.Underlying().(*types.Basic); ok {
		return b.Kind()
	}
	return types.Invalid
}
func isSignedBV(ty types.Type) bool {
	k := basicKind(ty)
	return k == types.Int64 || k == types.Int32
}
func isBV(ty types.Type) bool {
	switch basicKind(ty) {
	case types.Uint, types.Uint64, types.Int64, types.Int32, types.Uint8:
		return true
	}
	return false
}
func bvWidth(ty types.Type) int {
	switch basicKind(ty) {
	case types.Int32:
		return 32
	case types.Uint8:
		return 8
	}
	return 64
}
func isInt(ty types.Type) bool {
	k := basicKind(ty)
	return k == types.Int || k == types.UntypedInt
}

// ---------------------------------------------------------------- constants

func cratOf(v constant.Value) *big.Rat {
	switch x := constant.Val(v).(type) {
	case int64:
		return new(big.Rat).SetInt64(x)
	case *big.Int:
		return new(big.Rat).SetInt(x)
	case *big.Rat:
		return x
	case *big.Float:
		r, _ := x.Rat(nil)
		return r
	}
	return nil
}

func leanRat(r *big.Rat) string {
	if r.IsInt() {
		if r.Sign() < 0 {
			return "((" + r.Num().String() + " : Int) : Rat)"
		}
		return "(" + r.Num().String() + " : Rat)"
	}
	if r.Sign() < 0 {
		return "((" + r.Num().String() + " : Int) / " + r.Denom().String() + " : Rat)"
	}
	return "(" + r.Num().String() + " / " + r.Denom().String() + " : Rat)"
}

func (t *tr) constOfType(n ast.Node, v constant.Value, ty types.Type) string {
	switch {
	case basicKind(ty) == types.Bool || basicKind(ty) == types.UntypedBool:
		if constant.BoolVal(v) {
			return "true"
		}
		return "false"
	case isInt(ty):
		r := cratOf(constant.ToInt(v))
		if r == nil || !r.IsInt() {
			t.fail(n, "integer constant expected")
		}
		return "(" + r.Num().String() + " : Int)"
	case isBV(ty):
		r := cratOf(constant.ToInt(v))
		if r == nil || !r.IsInt() {
			t.fail(n, "integer constant expected")
		}
		w := bvWidth(ty)
		if r.Sign() < 0 {
			return fmt.Sprintf("(BitVec.ofInt %d (%s))", w, r.Num().String())
		}
		return fmt.Sprintf("%s#%d", r.Num().String(), w)
	case isFloat(ty):
		r := cratOf(v)
		if r == nil {
			t.fail(n, "float constant expected")
		}
		if t.unit.Mode == "mops" {
			if r.IsInt() && r.Num().IsInt64() {
				return "(MOps.ofInt (" + r.Num().String() + ") : F)"
			}
			return "(MOps.ofRat " + leanRat(r) + " : F)"
		}
		// the constant is converted to float64 where it is used: round once
		f, _ := new(big.Float).SetPrec(2000).SetRat(r).Float64()
		fr := new(big.Rat)
		fr.SetFloat64(f)
		if t.rat() {
			return leanRat(fr)
		}
		return "(F64.fin " + leanRat(fr) + ")"
	}
	t.fail(n, "constant of unsupported type %s", ty)
	return ""
}

// does a constant expression mention math.Ln2 (kept symbolic so that the real-number reading is exact)?
func (t *tr) mentionsSymbolic(e ast.Expr) bool {
	found := false
	ast.Inspect(e, func(n ast.Node) bool {
		if s, ok := n.(*ast.SelectorExpr); ok {
			if id, ok := s.X.(*ast.Ident); ok && id.Name == "math" && s.Sel.Name == "Ln2" {
				found = true
			}
		}
		if id, ok := n.(*ast.Ident); ok {
			if c, ok := t.info.Uses[id].(*types.Const); ok && c.Pkg() == t.pkg && t.unit.Mode == "mops" {
				// package constants defined through Ln2 (none today) would be caught by their definition
				_ = c
			}
		}
		return true
	})
	return found
}

// ---------------------------------------------------------------- embedded fields

// a selector that goes through embedded fields (`s.bins` for `s.DenseStore.bins`, `s.IsEmpty` for
// `s.DenseStore.IsEmpty`) as the explicit chain of selectors; for a method value the result is the receiver chain
func (t *tr) explicitSel(x *ast.SelectorExpr) (field *ast.SelectorExpr, recv ast.Expr) {
	sel, ok := t.info.Selections[x]
	if !ok || len(sel.Index()) <= 1 {
		return x, x.X
	}
	cur := x.X
	ty := t.typeOf(x.X)
	idx := sel.Index()
	for _, i := range idx[:len(idx)-1] {
		if p, ok := ty.Underlying().(*types.Pointer); ok {
			ty = p.Elem()
		}
		st, ok := ty.Underlying().(*types.Struct)
		if !ok {
			t.fail(x, "promoted selector through a non-struct")
		}
		f := st.Field(i)
		ne := &ast.SelectorExpr{X: cur, Sel: ast.NewIdent(f.Name())}
		t.info.Types[ne] = types.TypeAndValue{Type: f.Type()}
		cur = ne
		ty = f.Type()
	}
	if sel.Kind() == types.FieldVal {
		ne := &ast.SelectorExpr{X: cur, Sel: x.Sel}
		t.info.Types[ne] = t.info.Types[x]
		return ne, cur
	}
	return x, cur
}

// the concrete type name a specialised interface parameter is taken to hold ("" if not specialised)
func (t *tr) specialised(e ast.Expr) string {
	id, ok := e.(*ast.Ident)
	if !ok || t.cur == nil {
		return ""
	}
	if m, ok := t.unit.Specialise[t.cur.key]; ok {
		if _, isVar := t.info.Uses[id].(*types.Var); isVar {
			return m[id.Name]
		}
	}
	return ""
}

// ---------------------------------------------------------------- expressions

type hoist struct {
	name string
	expr string
	kind string // "opt" | "res"
	pat  string // binder pattern (name, or a tuple pattern for calls)
}

type ectx struct {
	hoists *[]hoist
	inSC   bool // inside the right operand of && / ||
}

func (t *tr) tmp() string {
	t.nTmp++
	return fmt.Sprintf("t%d", t.nTmp)
}

func (t *tr) typeOf(e ast.Expr) types.Type {
	tv, ok := t.info.Types[e]
	if !ok || tv.Type == nil {
		t.fail(e, "no type information")
	}
	return tv.Type
}

// mops mode: package constants that the arithmetic class keeps abstract (their real-number reading is
// fixed by the instance; their float64 values are re-extracted by `hx consts`)
var mopsConsts = map[string]string{"expOverflow": "MOps.expOverflow", "minNormalFloat64": "MOps.minNormal"}

// the exact (unrounded) value of a constant expression: Go evaluates constant expressions exactly and
// rounds once where the constant is used; go/types records the rounded value for a constant used as
// float64, so the exact one is recomputed from the declarations
func (t *tr) exactConst(e ast.Expr) constant.Value {
	switch x := e.(type) {
	case *ast.BasicLit:
		return constant.MakeFromLiteral(x.Value, x.Kind, 0)
	case *ast.ParenExpr:
		return t.exactConst(x.X)
	case *ast.Ident:
		if c, ok := t.info.Uses[x].(*types.Const); ok {
			return c.Val()
		}
	case *ast.SelectorExpr:
		if c, ok := t.info.Uses[x.Sel].(*types.Const); ok {
			return c.Val()
		}
	case *ast.UnaryExpr:
		if v := t.exactConst(x.X); v != nil && (x.Op == token.SUB || x.Op == token.ADD) {
			return constant.UnaryOp(x.Op, v, 0)
		}
	case *ast.BinaryExpr:
		a, b := t.exactConst(x.X), t.exactConst(x.Y)
		if a == nil || b == nil {
			return nil
		}
		switch x.Op {
		case token.ADD, token.SUB, token.MUL:
			return constant.BinaryOp(a, x.Op, b)
		case token.QUO:
			if isFloat(t.typeOf(x)) || a.Kind() == constant.Float || b.Kind() == constant.Float {
				return constant.BinaryOp(constant.ToFloat(a), token.QUO, constant.ToFloat(b))
			}
			return constant.BinaryOp(a, token.QUO_ASSIGN, b)
		}
	case *ast.CallExpr:
		if tv, ok := t.info.Types[x.Fun]; ok && tv.IsType() && len(x.Args) == 1 && isFloat(tv.Type) {
			return t.exactConst(x.Args[0])
		}
	}
	return nil
}

func (t *tr) mentionsAbstract(e ast.Expr) bool {
	found := false
	ast.Inspect(e, func(n ast.Node) bool {
		if id, ok := n.(*ast.Ident); ok {
			if c, ok := t.info.Uses[id].(*types.Const); ok && c.Pkg() == t.pkg {
				if _, ok := mopsConsts[c.Name()]; ok {
					found = true
				}
			}
		}
		return true
	})
	return found
}

func (t *tr) expr(e ast.Expr, c *ectx) string {
	tv := t.info.Types[e]
	if t.unit.Mode == "mops" && tv.Value != nil && isFloat(tv.Type) {
		if id, ok := e.(*ast.Ident); ok {
			if k, ok := t.info.Uses[id].(*types.Const); ok && k.Pkg() == t.pkg {
				if a, ok := mopsConsts[k.Name()]; ok {
					return "(" + a + " : F)"
				}
			}
		}
	}
	if tv.Value != nil && !(t.unit.Mode == "mops" && isFloat(tv.Type) && (t.mentionsSymbolic(e) || t.mentionsAbstract(e))) {
		ty := tv.Type
		v := tv.Value
		if t.unit.Mode == "mops" && isFloat(ty) {
			if ex := t.exactConst(e); ex != nil && ex.Kind() != constant.Unknown {
				v = ex
			}
		}
		return t.constOfType(e, v, ty)
	}
	if t.isOptionExpr(e) {
		// a nullable pointer used as a pointer: dereferenced by what follows (nil = panic)
		if c.hoists == nil || c.inSC {
			t.fail(e, "use of a nullable pointer needs a fallible, non-short-circuit context")
		}
		n := t.tmp()
		*c.hoists = append(*c.hoists, hoist{name: n, kind: "opt", pat: n, expr: t.optionRaw(e, c)})
		return n
	}
	switch x := e.(type) {
	case *ast.ParenExpr:
		return t.expr(x.X, c)
	case *ast.Ident:
		obj := t.info.Uses[x]
		if obj == nil {
			obj = t.info.Defs[x]
		}
		if v, ok := obj.(*types.Var); ok {
			if t.knownTrue[v] {
				return "true" // `ok` of a type assertion that succeeds by specialisation
			}
			if ln, ok := t.vars[v]; ok {
				if t.varRes[v] {
					if c.hoists == nil || c.inSC {
						t.fail(e, "package variable %s needs a fallible context", x.Name)
					}
					n := t.tmp()
					*c.hoists = append(*c.hoists, hoist{name: n, expr: ln, kind: "res", pat: n})
					return n
				}
				return ln
			}
			if v.Pkg() == t.pkg && v.Parent() == t.pkg.Scope() {
				t.fail(e, "package variable %s is not translated", x.Name)
			}
			return lname(x.Name)
		}
		if x.Name == "nil" {
			if tv.Type != nil {
				if _, isSl := tv.Type.(*types.Slice); isSl {
					return "([] : " + t.leanType(tv.Type) + ")" // a nil slice
				}
			}
			return "GoErr.nil"
		}
		if x.Name == "true" || x.Name == "false" {
			return x.Name
		}
		t.fail(e, "unsupported identifier %s", x.Name)
	case *ast.StarExpr:
		return t.expr(x.X, c)
	case *ast.SelectorExpr:
		if id, ok := x.X.(*ast.Ident); ok {
			if pn, ok := t.info.Uses[id].(*types.PkgName); ok {
				if lv, ok := t.unit.ExternVars[pn.Imported().Name()+"."+x.Sel.Name]; ok {
					return lv
				}
				switch pn.Imported().Path() + "." + x.Sel.Name {
				case "io.EOF":
					return "GoErr.eof"
				case "math.Ln2":
					if t.unit.Mode == "mops" {
						return "(MOps.ln2 : F)"
					}
				}
				t.fail(e, "unsupported package member %s.%s", id.Name, x.Sel.Name)
			}
		}
		// field access (through embedded fields: the explicit chain)
		if ex, _ := t.explicitSel(x); ex != x {
			return t.expr(ex, c)
		}
		return "(" + t.expr(x.X, c) + ")." + lname(x.Sel.Name)
	case *ast.UnaryExpr:
		ty := t.typeOf(x.X)
		switch x.Op {
		case token.SUB:
			if isFloat(ty) {
				if t.unit.Mode == "mops" {
					return "(MOps.neg " + t.expr(x.X, c) + ")"
				}
				if t.rat() {
					return "(-" + t.expr(x.X, c) + ")"
				}
				return "(F64.neg " + t.expr(x.X, c) + ")"
			}
			return "(-" + t.expr(x.X, c) + ")"
		case token.XOR:
			if isBV(ty) {
				return "(~~~" + t.expr(x.X, c) + ")"
			}
		case token.NOT:
			return "(!" + t.expr(x.X, c) + ")"
		case token.AND:
			// &x of a local slice passed to a function that appends to it, or &T{...}
			return t.expr(x.X, c)
		}
		t.fail(e, "unsupported unary operator %s", x.Op)
	case *ast.BinaryExpr:
		return t.binary(x, c)
	case *ast.CallExpr:
		return t.call(x, c)
	case *ast.CompositeLit:
		return t.composite(x, c)
	case *ast.FuncLit:
		fi := t.lits[x]
		if fi == nil {
			return t.lambda(x)
		}
		if t.unit.TypeArgs != "" {
			return "(" + fi.lean + " " + t.unit.TypeArgs + " fuel)"
		}
		return "(" + fi.lean + " fuel)"
	case *ast.IndexExpr:
		if mt, ok := t.typeOf(x.X).Underlying().(*types.Map); ok {
			// a map read never panics: the zero value for a missing key
			return "(GoSem.mget " + t.expr(x.X, c) + " " + t.mapKey(mt, x.Index, c) + " " + t.zero(e, mt.Elem()) + ")"
		}
		if c.hoists == nil || c.inSC {
			t.fail(e, "index expression needs a fallible, non-short-circuit context")
		}
		n := t.tmp()
		*c.hoists = append(*c.hoists, hoist{name: n, kind: "opt", pat: n,
			expr: "GoSem.idx " + t.expr(x.X, c) + " " + t.expr(x.Index, c)})
		return n
	case *ast.SliceExpr:
		if c.hoists == nil || c.inSC {
			t.fail(e, "slice expression needs a fallible, non-short-circuit context")
		}
		if x.Slice3 {
			t.fail(e, "unsupported slice expression form")
		}
		n := t.tmp()
		base := t.expr(x.X, c)
		if x.Low != nil && x.High != nil {
			*c.hoists = append(*c.hoists, hoist{name: n, kind: "opt", pat: n, expr: "GoSem.slice " + base + " " + t.expr(x.Low, c) + " " + t.expr(x.High, c)})
		} else if x.Low != nil {
			*c.hoists = append(*c.hoists, hoist{name: n, kind: "opt", pat: n, expr: "GoSem.sliceFrom " + base + " " + t.expr(x.Low, c)})
		} else if x.High != nil {
			*c.hoists = append(*c.hoists, hoist{name: n, kind: "opt", pat: n, expr: "GoSem.sliceTo " + base + " " + t.expr(x.High, c)})
		} else {
			return base
		}
		return n
	}
	t.fail(e, "unsupported expression %T", e)
	return ""
}

// the key of a map access: a `map[int32]V` is keyed by the VALUE of the int32 (GoSem.GoMap has Int keys)
func (t *tr) mapKey(mt *types.Map, e ast.Expr, c *ectx) string {
	k := t.expr(e, c)
	if isBV(mt.Key()) {
		return "(BitVec.toInt " + k + ")"
	}
	return k
}

func (t *tr) fop(name string) string {
	if t.unit.Mode == "mops" {
		return "MOps." + name
	}
	return "F64." + name
}

func (t *tr) binary(x *ast.BinaryExpr, c *ectx) string {
	lt := t.typeOf(x.X)
	if x.Op == token.LAND || x.Op == token.LOR {
		a := t.expr(x.X, c)
		c2 := &ectx{hoists: c.hoists, inSC: true}
		b := t.expr(x.Y, c2)
		if x.Op == token.LAND {
			return "(" + a + " && " + b + ")"
		}
		return "(" + a + " || " + b + ")"
	}
	if x.Op == token.EQL || x.Op == token.NEQ {
		// `m == nil` for an interface value of a declared class
		for _, pair := range [][2]ast.Expr{{x.X, x.Y}, {x.Y, x.X}} {
			if id, ok := pair[1].(*ast.Ident); ok && id.Name == "nil" {
				if t.isOptionExpr(pair[0]) {
					if x.Op == token.NEQ {
						return "(Option.isSome " + t.optionRaw(pair[0], c) + ")"
					}
					return "(Option.isNone " + t.optionRaw(pair[0], c) + ")"
				}
				if nm, ok := t.typeOf(pair[0]).(*types.Named); ok && nm.Obj().Pkg() != nil {
					if is, ok := t.unit.Ifaces[nm.Obj().Pkg().Name()+"."+nm.Obj().Name()]; ok {
						v := "(" + is.Class + ".isNil " + t.expr(pair[0], c) + ")"
						if x.Op == token.NEQ {
							return "(!" + v + ")"
						}
						return v
					}
				}
			}
		}
	}
	a := t.expr(x.X, c)
	b := t.expr(x.Y, c)
	switch {
	case (isFloat(lt) || isFloat(t.typeOf(x.Y))) && t.rat():
		switch x.Op {
		case token.ADD:
			return "(" + a + " + " + b + ")"
		case token.SUB:
			return "(" + a + " - " + b + ")"
		case token.MUL:
			return "(" + a + " * " + b + ")"
		case token.LSS:
			return "(decide (" + a + " < " + b + "))"
		case token.GTR:
			return "(decide (" + b + " < " + a + "))"
		case token.LEQ:
			return "(decide (" + a + " ≤ " + b + "))"
		case token.GEQ:
			return "(decide (" + b + " ≤ " + a + "))"
		case token.EQL:
			return "(" + a + " == " + b + ")"
		case token.NEQ:
			return "(" + a + " != " + b + ")"
		}
	case isFloat(lt) || isFloat(t.typeOf(x.Y)):
		switch x.Op {
		case token.ADD:
			return "(" + t.fop("add") + " " + a + " " + b + ")"
		case token.SUB:
			return "(" + t.fop("sub") + " " + a + " " + b + ")"
		case token.MUL:
			return "(" + t.fop("mul") + " " + a + " " + b + ")"
		case token.QUO:
			return "(" + t.fop("div") + " " + a + " " + b + ")"
		case token.LSS:
			return "(" + t.fop("lt") + " " + a + " " + b + ")"
		case token.GTR:
			return "(" + t.fop("lt") + " " + b + " " + a + ")"
		case token.LEQ:
			return "(" + t.fop("le") + " " + a + " " + b + ")"
		case token.GEQ:
			return "(" + t.fop("le") + " " + b + " " + a + ")"
		case token.EQL:
			if t.unit.Mode == "mops" {
				t.fail(x, "float == in generic arithmetic")
			}
			return "(F64.eq " + a + " " + b + ")"
		case token.NEQ:
			if t.unit.Mode == "mops" {
				t.fail(x, "float != in generic arithmetic")
			}
			return "(F64.ne " + a + " " + b + ")"
		}
	case x.Op == token.SHL || x.Op == token.SHR:
		if isBV(lt) {
			sh := b
			if isInt(t.typeOf(x.Y)) {
				sh = "(Int.toNat " + b + ")"
			}
			if tv := t.info.Types[x.Y]; tv.Value != nil {
				if n, ok := constant.Uint64Val(constant.ToInt(tv.Value)); ok {
					sh = fmt.Sprintf("%d", n) // a constant shift count: a Nat literal
				}
			}
			if x.Op == token.SHL {
				return "(" + a + " <<< " + sh + ")"
			}
			if isSignedBV(lt) {
				if isBV(t.typeOf(x.Y)) {
					sh = "(BitVec.toNat " + b + ")"
				}
				return "(BitVec.sshiftRight " + a + " " + sh + ")"
			}
			return "(" + a + " >>> " + sh + ")"
		}
		if isInt(lt) {
			sh := "(Int.toNat " + b + ")"
			if isBV(t.typeOf(x.Y)) {
				sh = "(BitVec.toNat " + b + ")"
			}
			if x.Op == token.SHL {
				return "(" + a + " * (2 : Int) ^ " + sh + ")"
			}
			if isInt(t.typeOf(x.Y)) {
				return "(GoSem.shrInt " + a + " " + b + ")"
			}
			return "(Int.shiftRight " + a + " " + sh + ")"
		}
	case isBV(lt):
		signed := isSignedBV(lt)
		switch x.Op {
		case token.ADD:
			return "(" + a + " + " + b + ")"
		case token.SUB:
			return "(" + a + " - " + b + ")"
		case token.MUL:
			return "(" + a + " * " + b + ")"
		case token.AND:
			return "(" + a + " &&& " + b + ")"
		case token.OR:
			return "(" + a + " ||| " + b + ")"
		case token.XOR:
			return "(" + a + " ^^^ " + b + ")"
		case token.EQL:
			return "(" + a + " == " + b + ")"
		case token.NEQ:
			return "(" + a + " != " + b + ")"
		case token.LSS, token.GTR, token.LEQ, token.GEQ:
			op := map[token.Token]string{token.LSS: "lt", token.GTR: "lt", token.LEQ: "le", token.GEQ: "le"}[x.Op]
			if x.Op == token.GTR || x.Op == token.GEQ {
				a, b = b, a
			}
			if signed {
				return "(BitVec.s" + op + " " + a + " " + b + ")"
			}
			return "(BitVec.u" + op + " " + a + " " + b + ")"
		}
	case isInt(lt):
		switch x.Op {
		case token.ADD:
			return "(" + a + " + " + b + ")"
		case token.SUB:
			return "(" + a + " - " + b + ")"
		case token.MUL:
			return "(" + a + " * " + b + ")"
		case token.QUO:
			return "(Int.tdiv " + a + " " + b + ")"
		case token.REM:
			return "(Int.tmod " + a + " " + b + ")"
		case token.AND:
			return "(GoSem.andInt " + a + " " + b + ")"
		case token.EQL:
			return "(" + a + " == " + b + ")"
		case token.NEQ:
			return "(" + a + " != " + b + ")"
		case token.LSS:
			return "(decide (" + a + " < " + b + "))"
		case token.GTR:
			return "(decide (" + b + " < " + a + "))"
		case token.LEQ:
			return "(decide (" + a + " ≤ " + b + "))"
		case token.GEQ:
			return "(decide (" + b + " ≤ " + a + "))"
		}
	case basicKind(lt) == types.Bool:
		switch x.Op {
		case token.EQL:
			return "(" + a + " == " + b + ")"
		case token.NEQ:
			return "(" + a + " != " + b + ")"
		}
	default:
		if _, isStruct := lt.Underlying().(*types.Struct); isStruct && (x.Op == token.EQL || x.Op == token.NEQ) {
			if x.Op == token.EQL {
				return "(" + a + " == " + b + ")"
			}
			return "(" + a + " != " + b + ")"
		}
		if n, ok := lt.(*types.Named); ok && n.Obj().Name() == "error" {
			switch x.Op {
			case token.EQL:
				return "(" + a + " == " + b + ")"
			case token.NEQ:
				return "(" + a + " != " + b + ")"
			}
		}
	}
	t.fail(x, "unsupported binary operation %s on %s", x.Op, lt)
	return ""
}

func (t *tr) conversion(x *ast.CallExpr, to types.Type, c *ectx) string {
	arg := x.Args[0]
	from := t.typeOf(arg)
	a := t.expr(arg, c)
	switch {
	case isBV(to) && isBV(from):
		wf, wt := bvWidth(from), bvWidth(to)
		if wf == wt {
			return a
		}
		if wt > wf && isSignedBV(from) {
			return fmt.Sprintf("(BitVec.signExtend %d %s)", wt, a)
		}
		return fmt.Sprintf("(BitVec.setWidth %d %s)", wt, a)
	case isBV(to) && isInt(from):
		return fmt.Sprintf("(BitVec.ofInt %d %s)", bvWidth(to), a)
	case isInt(to) && isBV(from):
		if isSignedBV(from) || bvWidth(from) == 64 {
			return "(BitVec.toInt " + a + ")" // Go's int(uint64) reinterprets the 64 bits as signed
		}
		return "((BitVec.toNat " + a + " : Nat) : Int)"
	case isInt(to) && isInt(from):
		return a
	case isFloat(to) && isInt(from):
		if t.unit.Mode == "mops" {
			return "(MOps.ofInt " + a + " : F)"
		}
		if t.rat() {
			return "((" + a + " : Int) : Rat)"
		}
		return "(F64.ofInt " + a + ")"
	case isFloat(to) && isFloat(from):
		return a
	case isInt(to) && isFloat(from):
		if t.unit.Mode == "mops" {
			return "(MOps.trunc " + a + ")"
		}
		// NaN / infinities: the conversion is implementation-defined in Go; treated as a panic (as the model does)
		if t.rat() {
			t.fail(x, "float to int conversion on exact weights")
		}
		if c.hoists == nil || c.inSC {
			t.fail(x, "float to int conversion needs a fallible context")
		}
		n := t.tmp()
		*c.hoists = append(*c.hoists, hoist{name: n, kind: "opt", pat: n, expr: "F64.truncToInt " + a})
		return n
	}
	t.fail(x, "unsupported conversion %s -> %s", from, to)
	return ""
}

func (t *tr) stdCall(x *ast.CallExpr, path string, c *ectx) (string, bool) {
	arg := func(i int) string { return t.expr(x.Args[i], c) }
	mops := t.unit.Mode == "mops"
	if t.rat() && strings.HasPrefix(path, "math.") {
		t.fail(x, "float library call %s on exact weights", path)
	}
	switch path {
	case "math.Float64bits":
		if mops {
			return arg(0), true // the float stands for its own bits (see getExponent & co. below)
		}
		return "(GoSem.float64bits " + arg(0) + ")", true
	case "math.Float64frombits":
		if !mops {
			return "(GoSem.float64frombits " + arg(0) + ")", true
		}
	case "math.Inf":
		if !mops {
			return "(GoSem.inf " + arg(0) + ")", true
		}
	case "math.NaN":
		if !mops {
			return "F64.nan", true
		}
	case "math.IsNaN":
		if !mops {
			return "(F64.isNaN " + arg(0) + ")", true
		}
	case "math.IsInf":
		if !mops {
			return "(GoSem.isInf " + arg(0) + " " + arg(1) + ")", true
		}
	case "math.Abs":
		if !mops {
			return "(GoSem.fabs " + arg(0) + ")", true
		}
	case "math.Max":
		if mops {
			return "(Mapping.fmax " + arg(0) + " " + arg(1) + ")", true
		}
		return "(GoSem.fmax " + arg(0) + " " + arg(1) + ")", true
	case "math.Min":
		if mops {
			return "(Mapping.fmin " + arg(0) + " " + arg(1) + ")", true
		}
		return "(GoSem.fmin " + arg(0) + " " + arg(1) + ")", true
	case "math.Log", "math.Exp", "math.Log2", "math.Exp2", "math.Cbrt", "math.Sqrt", "math.Floor":
		if !mops && path == "math.Floor" {
			return "(F64.floor " + arg(0) + ")", true
		}
		if mops {
			return "(MOps." + strings.ToLower(path[5:6]) + path[6:] + " " + arg(0) + ")", true
		}
	case "math.Ceil":
		if !mops {
			return "(GoSem.fceil " + arg(0) + ")", true
		}
	case "math.Pow":
		if mops {
			return "(MOps.pow " + arg(0) + " " + arg(1) + ")", true
		}
	case "math/bits.RotateLeft64":
		return "(GoSem.rotateLeft64 " + arg(0) + " " + arg(1) + ")", true
	case "math/bits.LeadingZeros64":
		return "(GoSem.leadingZeros64 " + arg(0) + ")", true
	case "math/bits.TrailingZeros64":
		return "(GoSem.trailingZeros64 " + arg(0) + ")", true
	case "errors.New", "fmt.Errorf":
		s := "error"
		if lit, ok := x.Args[0].(*ast.BasicLit); ok {
			s = strings.Trim(lit.Value, "\"`")
		}
		return "(GoErr.named " + fmt.Sprintf("%q", s) + ")", true
	}
	return "", false
}

func (t *tr) call(x *ast.CallExpr, c *ectx) string {
	// conversion?
	if tv, ok := t.info.Types[x.Fun]; ok && tv.IsType() {
		return t.conversion(x, tv.Type, c)
	}
	// builtins
	if id, ok := x.Fun.(*ast.Ident); ok {
		if _, ok := t.info.Uses[id].(*types.Builtin); ok {
			switch id.Name {
			case "len":
				return "(GoSem.len " + t.expr(x.Args[0], c) + ")"
			case "append":
				base := t.expr(x.Args[0], c)
				if x.Ellipsis.IsValid() {
					return "(" + base + " ++ " + t.expr(x.Args[1], c) + ")"
				}
				var els []string
				for _, a := range x.Args[1:] {
					els = append(els, t.expr(a, c))
				}
				return "(" + base + " ++ [" + strings.Join(els, ", ") + "])"
			case "make":
				if _, isMap := t.typeOf(x).Underlying().(*types.Map); isMap {
					return "([] : " + t.leanType(t.typeOf(x)) + ")"
				}
				if sl, ok := t.typeOf(x).(*types.Slice); ok && len(x.Args) == 3 {
					if tv := t.info.Types[x.Args[1]]; tv.Value != nil && constant.Sign(tv.Value) == 0 {
						return "([] : List (" + t.leanType(sl.Elem()) + "))" // make([]T, 0, cap): the capacity is not modelled
					}
				}
				st, ok := t.typeOf(x).(*types.Slice)
				if !ok || len(x.Args) != 2 {
					t.fail(x, "unsupported make")
				}
				if tv := t.info.Types[x.Args[1]]; tv.Value == nil && c.hoists != nil && !c.inSC && t.unit.Mode == "rat" {
					// a negative length panics
					n := t.tmp()
					*c.hoists = append(*c.hoists, hoist{name: n, kind: "opt", pat: n,
						expr: "GoSem.mkSlice " + t.expr(x.Args[1], c) + " " + t.zeroElem(x, st.Elem())})
					return n
				}
				return "(List.replicate (Int.toNat " + t.expr(x.Args[1], c) + ") " + t.zeroElem(x, st.Elem()) + ")"
			}
			t.fail(x, "unsupported builtin %s", id.Name)
		}
	}
	// standard library
	if sel, ok := x.Fun.(*ast.SelectorExpr); ok {
		if id, ok := sel.X.(*ast.Ident); ok {
			if pn, ok := t.info.Uses[id].(*types.PkgName); ok && t.byObj[t.info.Uses[sel.Sel]] == nil {
				if s, ok := t.stdCall(x, pn.Imported().Path()+"."+sel.Sel.Name, c); ok {
					return s
				}
				t.fail(x, "unsupported library call %s.%s", id.Name, sel.Sel.Name)
			}
		}
		// binary.LittleEndian.Uint64(x)
		if inner, ok := sel.X.(*ast.SelectorExpr); ok {
			if id, ok := inner.X.(*ast.Ident); ok && id.Name == "binary" && inner.Sel.Name == "LittleEndian" && sel.Sel.Name == "Uint64" {
				if c.hoists == nil || c.inSC {
					t.fail(x, "binary.LittleEndian.Uint64 needs a fallible context")
				}
				n := t.tmp()
				*c.hoists = append(*c.hoists, hoist{name: n, kind: "opt", pat: n, expr: "GoSem.leU64 " + t.expr(x.Args[0], c)})
				return n
			}
		}
	}
	// package functions and methods: value calls (results only; callers that bind mutated
	// parameters go through callStmt)
	fi, args := t.callee(x, c)
	if fi == nil {
		t.fail(x, "call to a function that is not translated")
	}
	if len(fi.mutated) > 0 {
		// every argument written through is a temporary (the result of a call: nothing else can observe the writes), the
		// callee is fallible and has one result: the new values are dropped
		var argExprs []ast.Expr
		if fi.recv != nil {
			argExprs = append(argExprs, x.Fun.(*ast.SelectorExpr).X)
		}
		argExprs = append(argExprs, x.Args...)
		temps := fi.res && !fi.stateful && !fi.stCallback && fi.sig.Results().Len() == 1 && c.hoists != nil && !c.inSC
		for _, mi := range fi.mutated {
			if mi >= len(argExprs) {
				temps = false
			} else if _, isCall := unparen(argExprs[mi]).(*ast.CallExpr); !isCall {
				temps = false
			}
		}
		if !temps {
			t.fail(x, "call to %s (writes through a pointer) in expression position", fi.key)
		}
		n := t.tmp()
		pat := "(" + strings.Repeat("_, ", len(fi.mutated)) + n + ")"
		*c.hoists = append(*c.hoists, hoist{name: n, kind: "res", pat: pat, expr: t.apply(fi, args)})
		return n
	}
	if fi.stateful {
		t.fail(x, "call to %s (takes a state-passing callback) in expression position", fi.key)
	}
	if fi.stCallback {
		if c.hoists == nil || c.inSC || fi.sig.Results().Len() != 1 {
			t.fail(x, "call to the state-passing %s needs a fallible, non-short-circuit context", fi.key)
		}
		n := t.tmp()
		*c.hoists = append(*c.hoists, hoist{name: n, kind: "res", pat: "(«st», " + n + ")", expr: t.apply(fi, args)})
		return n
	}
	if t.unit.Mode == "mops" {
		switch fi.key {
		}
	}
	app := t.apply(fi, args)
	if fi.res {
		if c.hoists == nil || c.inSC {
			t.fail(x, "call to fallible %s needs a fallible context", fi.key)
		}
		n := t.tmp()
		*c.hoists = append(*c.hoists, hoist{name: n, kind: "res", pat: n, expr: app})
		return n
	}
	return "(" + app + ")"
}

// mops mode: the bit helpers are the abstract operations of MOps
var mopsIntrinsics = map[string]string{
	"getExponent":           "MOps.exponentOf",
	"getSignificandPlusOne": "MOps.significandPlusOne",
	"buildFloat64":          "Mapping.buildFloatN",
}

func (t *tr) callee(x *ast.CallExpr, c *ectx) (*funcInfo, []string) {
	var obj types.Object
	var recvArg string
	switch f := x.Fun.(type) {
	case *ast.Ident:
		obj = t.info.Uses[f]
	case *ast.SelectorExpr:
		obj = t.info.Uses[f.Sel]
		if sel, ok := t.info.Selections[f]; ok && sel.Kind() == types.MethodVal {
			recvArg = t.expr(f.X, c) + t.implicitPath(f, sel)
			if conc := t.specialised(f.X); conc != "" {
				// the method of the concrete type (possibly promoted from an embedded struct)
				if tn := t.pkg.Scope().Lookup(conc); tn != nil {
					ms := types.NewMethodSet(types.NewPointer(tn.Type()))
					if msel := ms.Lookup(t.pkg, f.Sel.Name); msel != nil {
						obj = msel.Obj()
						ty := tn.Type()
						path := ""
						idx := msel.Index()
						for _, i := range idx[:len(idx)-1] {
							if p, ok := ty.Underlying().(*types.Pointer); ok {
								ty = p.Elem()
							}
							st := ty.Underlying().(*types.Struct)
							path += "." + lname(st.Field(i).Name())
							ty = st.Field(i).Type()
						}
						recvArg = t.expr(f.X, c) + path
					}
				}
			}
		}
	}
	if obj == nil {
		return nil, nil
	}
	if t.unit.Mode == "mops" {
		if in, ok := mopsIntrinsics[obj.Name()]; ok && obj.Pkg() == t.pkg {
			var args []string
			for _, a := range x.Args {
				args = append(args, t.expr(a, c))
			}
			return &funcInfo{key: obj.Name(), lean: in, sig: obj.Type().(*types.Signature)}, args
		}
	}
	fi := t.byObj[obj]
	if fi == nil {
		return nil, nil
	}
	var args []string
	if fi.recv != nil {
		args = append(args, recvArg)
	}
	if fi.stCallback {
		if t.cur == nil || t.cur.stVar == nil {
			t.fail(x, "state-passing callback called outside a stateful function")
		}
		args = append(args, "«st»")
	}
	for i, a := range x.Args {
		if fi.stateful && i == fi.stIdx {
			st, _, fn := t.stateOf(fi, x)
			args = append(args, st, fn)
			continue
		}
		if fi.optParams[i] || (fi.decl != nil && i < fi.sig.Params().Len() && t.nullableParam(fi.key, fi.sig.Params().At(i))) {
			// a nullable pointer parameter takes the `Option` itself
			if t.isOptionExpr(a) {
				args = append(args, t.optionRaw(a, c))
			} else {
				args = append(args, t.optionValue(a, t.expr(a, c)))
			}
			continue
		}
		v := t.expr(a, c)
		if fi.extern && !fi.noFuel && t.rat() && isFloat(t.typeOf(a)) {
			v = "(F64.fin " + v + ")" // an exact weight handed to code of another package that computes on float64
		}
		args = append(args, v)
	}
	if len(x.Args) == 0 && fi.noFuel && fi.sig.Params().Len() == 0 {
		args = append(args, "()") // a function value without parameters takes a Unit
	}
	return fi, args
}

// ---------------------------------------------------------------- state-passing callbacks
//
// A function listed in the unit's `Stateful` table takes its callback `f` in state-passing form:
//
//	def T.M {σ : Type} (fuel : Nat) … («st» : σ) (f : σ → A → B → Res (σ × R)) … : Res (σ × mutated… × results…)
//
// every call `f(a, b)` in its body is `f «st» a b`, and rebinds `«st»` (a local like any other: loop state where a
// loop calls f).  At a call of such a function:
//   * the argument is a function LITERAL: the variables of the caller that the literal assigns (in order of first
//     assignment; `«st»` itself when the literal calls the caller's own callback) form the state tuple; the literal
//     becomes `fun (v1, …, vn) a b => body` where `return r` is `.ok ((v1, …, vn), r)`; after the call the variables are
//     rebound from the returned state.  No assigned variable: σ = Unit.  The callee must not keep the closure (it is a
//     parameter used only in calls: checked for translated callees), so Go's capture by reference and the value
//     threading agree.
//   * the argument is the caller's own state-passing parameter: it is passed on with the caller's `«st»`.
func (t *tr) stateOf(fi *funcInfo, x *ast.CallExpr) (init, pat, fn string) {
	return t.stateOf1(fi, x, true)
}

func (t *tr) stateOfPat(fi *funcInfo, x *ast.CallExpr) (init, pat, fn string) {
	return t.stateOf1(fi, x, false)
}

func (t *tr) stateOf1(fi *funcInfo, x *ast.CallExpr, withFn bool) (init, pat, fn string) {
	switch a := unparen(x.Args[fi.stIdx]).(type) {
	case *ast.FuncLit:
		vs := t.assignedOuter([]ast.Node{a.Body}, within(a))
		// the variables threaded through the literal must not be reachable by the callee in another way
		for i, o := range x.Args {
			if i == fi.stIdx {
				continue
			}
			if id := baseIdent(o); id != nil {
				for _, v := range vs {
					if t.info.Uses[id] == types.Object(v) {
						t.fail(x, "variable %s is assigned by the callback and passed to the callee", v.Name())
					}
				}
			}
		}
		if sel, ok := x.Fun.(*ast.SelectorExpr); ok {
			if id := baseIdent(sel.X); id != nil {
				for _, v := range vs {
					if t.info.Uses[id] == types.Object(v) && !t.disjointField(sel.X, v, a) {
						t.fail(x, "variable %s is assigned by the callback and is the receiver of the call", v.Name())
					}
				}
			}
		}
		var names, tys []string
		for _, v := range vs {
			names = append(names, lname(v.Name()))
			tys = append(tys, t.leanType(v.Type()))
		}
		init, pat = "()", "_"
		lpat, sty := "_", "Unit"
		if len(vs) > 0 {
			init, pat, lpat = tuple(names), tuple(names), tuple(names)
			sty = strings.Join(tys, " × ")
			if len(vs) > 1 {
				sty = "(" + sty + ")"
			}
			if len(vs) == 1 {
				lpat = names[0]
			}
		}
		if !withFn {
			return init, pat, ""
		}
		return init, pat, t.stLambda(a, init, lpat, sty)
	case *ast.Ident:
		if pf := t.byObj[t.info.Uses[a]]; pf != nil && pf.stCallback {
			return "«st»", "«st»", lname(a.Name)
		}
	}
	t.fail(x, "the state-passing parameter of %s takes a function literal or the caller's own state-passing parameter", fi.key)
	return
}

// the receiver of the call is the field `v.F` (directly) and the literal only touches OTHER fields of v: the callee's
// writes (to v.F, stored back after the call) and the literal's (threaded through the state) cannot meet
func (t *tr) disjointField(recv ast.Expr, v *types.Var, lit *ast.FuncLit) bool {
	rs, ok := unparen(recv).(*ast.SelectorExpr)
	if !ok {
		return false
	}
	if id, ok := rs.X.(*ast.Ident); !ok || t.info.Uses[id] != types.Object(v) {
		return false
	}
	rsel, ok := t.info.Selections[rs]
	if !ok || rsel.Kind() != types.FieldVal || len(rsel.Index()) != 1 {
		return false
	}
	fidx := rsel.Index()[0]
	good := true
	parents := map[*ast.Ident]*ast.SelectorExpr{}
	ast.Inspect(lit.Body, func(m ast.Node) bool {
		if se, ok := m.(*ast.SelectorExpr); ok {
			if id, ok := se.X.(*ast.Ident); ok {
				parents[id] = se
			}
		}
		return true
	})
	ast.Inspect(lit.Body, func(m ast.Node) bool {
		id, ok := m.(*ast.Ident)
		if !ok || t.info.Uses[id] != types.Object(v) {
			return true
		}
		se := parents[id]
		if se == nil {
			good = false
			return false
		}
		sl, ok := t.info.Selections[se]
		if !ok || len(sl.Index()) == 0 || sl.Index()[0] == fidx {
			good = false
		}
		return good
	})
	return good
}

// a function literal in state-passing form (see above)
func (t *tr) stLambda(x *ast.FuncLit, stVal, stPat, stTy string) string {
	sig := t.info.Types[x].Type.(*types.Signature)
	saved := t.cur
	ctx := &funcInfo{key: saved.key, lean: saved.lean, decl: saved.decl, sig: sig, mutSet: map[*types.Var]bool{}, res: true,
		stVar: saved.stVar, retState: []string{stVal}, retStateTy: []string{stTy}, oracles: saved.oracles}
	var names []string
	for j := 0; j < sig.Params().Len(); j++ {
		pv := sig.Params().At(j)
		if _, ok := pv.Type().(*types.Pointer); ok {
			ctx.mutSet[pv] = true
			ctx.mutated = append(ctx.mutated, j)
		}
		n := pv.Name()
		if n == "" {
			n = "_"
		}
		names = append(names, lname(n))
	}
	if len(names) == 0 {
		names = []string{"_"}
	}
	ast.Inspect(x.Body, func(m ast.Node) bool {
		if l, ok := m.(*ast.FuncLit); ok && l != x {
			t.fail(l, "function literal inside a state-passing function literal")
		}
		return true
	})
	t.cur = ctx
	defer func() { t.cur = saved }()
	sc := &sctx{monad: "res"}
	end := tuple(append([]string{stVal}, func() []string {
		var vs []string
		for _, mi := range ctx.mutated {
			vs = append(vs, lname(sig.Params().At(mi).Name()))
		}
		return vs
	}()...))
	if sig.Results().Len() > 0 {
		end = "default_unreachable"
	}
	body := t.stmts(x.Body.List, sc, t.ret(end, sc))
	if strings.Contains(body, "default_unreachable") {
		t.fail(x, "function literal may fall off its end")
	}
	for i := sig.Results().Len() - 1; i >= 0; i-- {
		rv := sig.Results().At(i)
		if rv.Name() == "" || rv.Name() == "_" {
			continue
		}
		used := false
		ast.Inspect(x.Body, func(m ast.Node) bool {
			if id, ok := m.(*ast.Ident); ok && t.info.Uses[id] == types.Object(rv) {
				used = true
			}
			return !used
		})
		if used {
			body = "let " + lname(rv.Name()) + " : " + t.leanType(rv.Type()) + " := " + t.zero(x, rv.Type()) + "\n" + body
		}
	}
	return "(fun " + stPat + " " + strings.Join(names, " ") + " =>\n" + body + ")"
}

// a method promoted through embedded fields: the Lean projection path to the value it is called on
func (t *tr) implicitPath(f *ast.SelectorExpr, sel *types.Selection) string {
	path := ""
	ty := t.typeOf(f.X)
	idx := sel.Index()
	for _, i := range idx[:len(idx)-1] {
		if p, ok := ty.Underlying().(*types.Pointer); ok {
			ty = p.Elem()
		}
		st, ok := ty.Underlying().(*types.Struct)
		if !ok {
			t.fail(f, "promoted method through a non-struct")
		}
		path += "." + lname(st.Field(i).Name())
		ty = st.Field(i).Type()
	}
	return path
}

// interface methods and functions of other translated packages that the unit declares
func (t *tr) registerExterns() {
	for _, f := range t.files {
		ast.Inspect(f, func(n ast.Node) bool {
			call, ok := n.(*ast.CallExpr)
			if !ok {
				return true
			}
			var obj types.Object
			switch fn := call.Fun.(type) {
			case *ast.Ident:
				obj = t.info.Uses[fn]
			case *ast.SelectorExpr:
				obj = t.info.Uses[fn.Sel]
			}
			fo, ok := obj.(*types.Func)
			if !ok || fo.Pkg() == nil || t.byObj[obj] != nil {
				return true
			}
			sig := fo.Type().(*types.Signature)
			if fo.Pkg() == t.pkg {
				// only methods of an interface of this package that the unit declares as a class, and plain functions of
				// this package that the unit declares as generated elsewhere (ExternFuncs["pkg.F"])
				isIface := false
				if _, ok := t.unit.ExternFuncs[t.pkg.Name()+"."+fo.Name()]; ok && sig.Recv() == nil {
					isIface = true
				}
				if sig.Recv() != nil {
					if nm, ok := sig.Recv().Type().(*types.Named); ok {
						if _, ok := t.unit.Ifaces[t.pkg.Name()+"."+nm.Obj().Name()]; ok {
							isIface = true
						}
					}
				}
				if !isIface {
					return true
				}
			}
			if sig.Recv() != nil {
				rt := sig.Recv().Type()
				if p, ok := rt.(*types.Pointer); ok {
					rt = p.Elem()
				}
				nm, ok := rt.(*types.Named)
				if !ok {
					return true
				}
				key := nm.Obj().Pkg().Name() + "." + nm.Obj().Name()
				if is, ok := t.unit.Ifaces[key]; ok {
					cls := is.Class
					if mc, ok := is.MethodClass[fo.Name()]; ok {
						cls = mc
					}
					fi := &funcInfo{key: key + "." + fo.Name(), lean: cls + "." + fo.Name(), sig: sig, recv: sig.Recv(),
						mutSet: map[*types.Var]bool{}, extern: true}
					if is.Mutating[fo.Name()] {
						fi.mutSet[sig.Recv()] = true
						fi.mutated = []int{0}
					}
					for _, i := range is.MutParams[fo.Name()] {
						fi.mutSet[sig.Params().At(i)] = true
						fi.mutated = append(fi.mutated, i+1)
					}
					t.byObj[obj] = fi
				} else if ef, ok := t.unit.ExternFuncs[key+"."+fo.Name()]; ok {
					fi := &funcInfo{key: key + "." + fo.Name(), lean: ef.Lean, sig: sig, recv: sig.Recv(),
						mutSet: map[*types.Var]bool{}, extern: true, res: ef.Res}
					if ef.Mutating {
						fi.mutSet[sig.Recv()] = true
						fi.mutated = []int{0}
					}
					t.byObj[obj] = fi
				}
			} else if ef, ok := t.unit.ExternFuncs[fo.Pkg().Name()+"."+fo.Name()]; ok {
				fi := &funcInfo{key: fo.Pkg().Name() + "." + fo.Name(), lean: ef.Lean, sig: sig, mutSet: map[*types.Var]bool{}, extern: true, res: ef.Res, ord: ef.Ord}
				for _, i := range ef.OptParams {
					if fi.optParams == nil {
						fi.optParams = map[int]bool{}
					}
					fi.optParams[i] = true
				}
				for _, i := range ef.MutParams {
					fi.mutSet[sig.Params().At(i)] = true
					fi.mutated = append(fi.mutated, i)
				}
				t.byObj[obj] = fi
			}
			return true
		})
	}
}

func (t *tr) apply(fi *funcInfo, args []string) string {
	s := fi.lean
	if fi.res && !fi.noFuel {
		s += " fuel"
	}
	if fi.ord {
		s += " ord"
	}
	for _, o := range t.oracleList {
		if fi.oracles[o.oracle] {
			s += " " + o.oracle
		}
	}
	for _, a := range args {
		s += " " + a
	}
	return s
}

// the zero value of a slice element (a typed empty list for a slice of slices)
func (t *tr) zeroElem(n ast.Node, ty types.Type) string {
	if _, ok := ty.Underlying().(*types.Slice); ok {
		return "([] : " + t.leanType(ty) + ")"
	}
	return t.zero(n, ty)
}

func (t *tr) zero(n ast.Node, ty types.Type) string {
	switch {
	case isInt(ty):
		return "(0 : Int)"
	case isBV(ty):
		return fmt.Sprintf("0#%d", bvWidth(ty))
	case isFloat(ty):
		if t.unit.Mode == "mops" {
			return "(MOps.ofInt 0 : F)"
		}
		if t.rat() {
			return "(0 : Rat)"
		}
		return "(F64.fin 0)"
	case basicKind(ty) == types.Bool:
		return "false"
	}
	if a, ok := ty.Underlying().(*types.Array); ok {
		return fmt.Sprintf("(List.replicate %d %s)", a.Len(), t.zero(n, a.Elem()))
	}
	if _, ok := ty.Underlying().(*types.Slice); ok {
		return "[]"
	}
	if _, ok := ty.Underlying().(*types.Map); ok {
		return "([] : " + t.leanType(ty) + ")" // a nil map reads and ranges like an empty one
	}
	if st, ok := ty.Underlying().(*types.Struct); ok && !t.isMirror(ty) {
		var fs []string
		for i := 0; i < st.NumFields(); i++ {
			fs = append(fs, lname(st.Field(i).Name())+" := "+t.zero(n, st.Field(i).Type()))
		}
		return "({ " + strings.Join(fs, ", ") + " } : " + t.leanType(ty) + ")"
	}
	if nm, ok := ty.(*types.Named); ok && nm.Obj().Name() == "error" {
		return "GoErr.nil"
	}
	if p, ok := ty.(*types.Pointer); ok {
		return t.zero(n, p.Elem()) // a nil pointer result is only returned next to a non-nil error
	}
	if nm, ok := ty.(*types.Named); ok && nm.Obj().Pkg() != nil && nm.Obj().Pkg() != t.pkg {
		key := nm.Obj().Pkg().Name() + "." + nm.Obj().Name()
		if _, ok := t.unit.Ifaces[key]; ok {
			return "default"
		}
		if _, ok := t.unit.ExternTypes[key]; ok {
			return "default"
		}
	}
	t.fail(n, "no zero value for %s", ty)
	return ""
}

func (t *tr) composite(x *ast.CompositeLit, c *ectx) string {
	ty := t.typeOf(x)
	if p, ok := ty.(*types.Pointer); ok {
		ty = p.Elem()
	}
	if sl, ok := ty.Underlying().(*types.Slice); ok {
		var els []string
		for _, e := range x.Elts {
			els = append(els, t.expr(e, c))
		}
		return "([" + strings.Join(els, ", ") + "] : List (" + t.leanType(sl.Elem()) + "))"
	}
	st, ok := ty.Underlying().(*types.Struct)
	if !ok {
		t.fail(x, "unsupported composite literal")
	}
	vals := map[string]string{}
	for i, e := range x.Elts {
		if kv, ok := e.(*ast.KeyValueExpr); ok {
			if id, isId := kv.Value.(*ast.Ident); isId && id.Name == "nil" {
				// `field: nil` for a slice field: the (typed) empty list
				for j := 0; j < st.NumFields(); j++ {
					if _, isSl := st.Field(j).Type().Underlying().(*types.Slice); isSl && st.Field(j).Name() == kv.Key.(*ast.Ident).Name {
						vals[st.Field(j).Name()] = "([] : " + t.leanType(st.Field(j).Type()) + ")"
					}
				}
				if _, done := vals[kv.Key.(*ast.Ident).Name]; done {
					continue
				}
			}
			vals[kv.Key.(*ast.Ident).Name] = t.expr(kv.Value, c)
		} else {
			vals[st.Field(i).Name()] = t.expr(e, c)
		}
	}
	ext := t.isExternStruct(ty)
	var fs []string
	for i := 0; i < st.NumFields(); i++ {
		f := st.Field(i)
		if ext && !f.Exported() {
			// a hand-mirrored structure of another package (ExternTypes) has the exported (data) fields only
			if _, set := vals[f.Name()]; set {
				t.fail(x, "unexported field %s of %s in a composite literal", f.Name(), ty)
			}
			continue
		}
		v, ok := vals[f.Name()]
		if ext && t.optionField(f) {
			// a sub-message pointer: `none` is nil, a (non-nil) pointer value is `some`
			if !ok {
				v = "none"
			} else {
				for _, e := range x.Elts {
					if kv, isKV := e.(*ast.KeyValueExpr); isKV && kv.Key.(*ast.Ident).Name == f.Name() {
						v = t.optionValue(kv.Value, v)
					}
				}
			}
		} else if !ok {
			v = t.zero(x, f.Type())
		}
		fs = append(fs, lname(f.Name())+" := "+v)
	}
	return "({ " + strings.Join(fs, ", ") + " } : " + t.leanType(ty) + ")"
}

// a struct type of another package that the unit mirrors by a hand-written Lean structure (ExternTypes)
func (t *tr) isExternStruct(ty types.Type) bool {
	if p, ok := ty.(*types.Pointer); ok {
		ty = p.Elem()
	}
	nm, ok := ty.(*types.Named)
	if !ok || nm.Obj().Pkg() == nil || nm.Obj().Pkg() == t.pkg {
		return false
	}
	if _, ok := nm.Underlying().(*types.Struct); !ok {
		return false
	}
	_, ok = t.unit.ExternTypes[nm.Obj().Pkg().Name()+"."+nm.Obj().Name()]
	return ok
}

// a mirrored structure with internal (unexported) fields that the Lean structure leaves out: its zero value is `default`
func (t *tr) isMirror(ty types.Type) bool {
	if !t.isExternStruct(ty) {
		return false
	}
	nm := ty.(*types.Named)
	return nm.Obj().Pkg().Name() == "sketchpb"
}

// a field of a mirrored structure that points to another mirrored structure (a protobuf sub-message): an `Option`
func (t *tr) optionField(f *types.Var) bool {
	p, ok := f.Type().(*types.Pointer)
	return ok && f.IsField() && f.Pkg() != t.pkg && t.isExternStruct(p.Elem())
}

// is the expression a NULLABLE pointer to a mirrored structure (an `Option` in Lean): a sub-message field, or a
// parameter the unit lists in `Nullable`
func (t *tr) isOptionExpr(e ast.Expr) bool {
	switch x := unparen(e).(type) {
	case *ast.SelectorExpr:
		if sel, ok := t.info.Selections[x]; ok && sel.Kind() == types.FieldVal {
			if f, ok := sel.Obj().(*types.Var); ok {
				return t.optionField(f)
			}
		}
	case *ast.Ident:
		if v, ok := t.info.Uses[x].(*types.Var); ok && t.cur != nil {
			return t.nullableParam(t.cur.key, v)
		}
	}
	return false
}

func (t *tr) nullableParam(key string, v *types.Var) bool {
	for _, n := range t.unit.Nullable[key] {
		if n == v.Name() && !v.IsField() {
			if p, ok := v.Type().(*types.Pointer); ok && t.isExternStruct(p.Elem()) {
				return true
			}
		}
	}
	return false
}

// the `Option` value of a nullable pointer expression
func (t *tr) optionRaw(e ast.Expr, c *ectx) string {
	switch x := unparen(e).(type) {
	case *ast.Ident:
		return lname(x.Name)
	case *ast.SelectorExpr:
		return "(" + t.expr(x.X, c) + ")." + lname(x.Sel.Name)
	}
	t.fail(e, "unsupported nullable pointer expression")
	return ""
}

// a pointer value stored where an `Option` is expected
func (t *tr) optionValue(e ast.Expr, v string) string {
	if id, ok := unparen(e).(*ast.Ident); ok && id.Name == "nil" {
		return "none"
	}
	if t.isOptionExpr(e) {
		return v
	}
	return "(some " + v + ")"
}

// ---------------------------------------------------------------- statements (continuation passing)

type sctx struct {
	monad string // "pure" | "res" | "loop"
	brk   string // Lean term for `break` ("" outside loops)
	cont  string // Lean term for `continue`
}

func (t *tr) wrapHoists(hs []hoist, body string, sc *sctx) string {
	for i := len(hs) - 1; i >= 0; i-- {
		h := hs[i]
		var comb string
		switch {
		case h.kind == "opt" && sc.monad == "res":
			comb = "GoSem.optR"
		case h.kind == "opt" && sc.monad == "loop":
			comb = "GoSem.optL"
		case h.kind == "res" && sc.monad == "res":
			comb = "Res.bind"
		case h.kind == "res" && sc.monad == "loop":
			comb = "Res.bindL"
		default:
			panic(trErr{"internal: hoist in a pure function"})
		}
		body = comb + " (" + h.expr + ") (fun " + h.pat + " =>\n" + body + ")"
	}
	return body
}

func (t *tr) newE(sc *sctx) (*ectx, *[]hoist) {
	hs := &[]hoist{}
	if sc.monad == "pure" {
		return &ectx{}, hs
	}
	return &ectx{hoists: hs}, hs
}

// the variable (receiver, pointer parameter or local) that an assignment target writes to, and the new value
func (t *tr) assignTo(lhs ast.Expr, rhs string, c *ectx, sc *sctx, k string) string {
	switch l := lhs.(type) {
	case *ast.Ident:
		if l.Name == "_" {
			return k
		}
		return "let " + lname(l.Name) + " := " + rhs + "\n" + k
	case *ast.StarExpr:
		if id, ok := l.X.(*ast.Ident); ok {
			return "let " + lname(id.Name) + " := " + rhs + "\n" + k
		}
	case *ast.SelectorExpr:
		if ex, _ := t.explicitSel(l); ex != l {
			return t.assignTo(ex, rhs, c, sc, k)
		}
		if id, ok := l.X.(*ast.Ident); ok {
			return "let " + lname(id.Name) + " := { " + lname(id.Name) + " with " + lname(l.Sel.Name) + " := " + rhs + " }\n" + k
		}
		if baseIdent(l.X) != nil {
			// s.a.b = v  ==>  s.a = { s.a with b := v }
			inner := t.expr(l.X, c)
			return t.assignTo(l.X, "{ "+inner+" with "+lname(l.Sel.Name)+" := "+rhs+" }", c, sc, k)
		}
	case *ast.IndexExpr:
		if mt, isMap := t.typeOf(l.X).Underlying().(*types.Map); isMap && baseIdent(l.X) != nil {
			return t.assignTo(l.X, "(GoSem.mset "+t.expr(l.X, c)+" "+t.mapKey(mt, l.Index, c)+" "+rhs+")", c, sc, k)
		}
		if id, ok := l.X.(*ast.Ident); ok && sc.monad != "pure" {
			comb := "GoSem.optR"
			if sc.monad == "loop" {
				comb = "GoSem.optL"
			}
			return comb + " (GoSem.set " + lname(id.Name) + " " + t.expr(l.Index, c) + " " + rhs + ") (fun " + lname(id.Name) + " =>\n" + k + ")"
		}
		if baseIdent(l.X) != nil && sc.monad != "pure" {
			// s.bins[i] = v  ==>  the new slice, stored back into s.bins
			comb := "GoSem.optR"
			if sc.monad == "loop" {
				comb = "GoSem.optL"
			}
			tn := t.tmp()
			return comb + " (GoSem.set " + t.expr(l.X, c) + " " + t.expr(l.Index, c) + " " + rhs + ") (fun " + tn + " =>\n" + t.assignTo(l.X, tn, c, sc, k) + ")"
		}
	}
	t.fail(lhs, "unsupported assignment target")
	return ""
}

// the variable at the root of `s`, `*b`, `s.f`, `s.f.g`, `(*b)`
func baseIdent(e ast.Expr) *ast.Ident {
	switch l := e.(type) {
	case *ast.Ident:
		return l
	case *ast.StarExpr:
		return baseIdent(l.X)
	case *ast.ParenExpr:
		return baseIdent(l.X)
	case *ast.SelectorExpr:
		return baseIdent(l.X)
	case *ast.IndexExpr:
		return baseIdent(l.X)
	case *ast.UnaryExpr:
		if l.Op == token.AND {
			return baseIdent(l.X)
		}
	}
	return nil
}

// names a pointer-ish argument expression refers to (`b`, `&b`, `s`)
func argVarName(e ast.Expr) string {
	switch a := e.(type) {
	case *ast.Ident:
		return a.Name
	case *ast.UnaryExpr:
		if a.Op == token.AND {
			return argVarName(a.X)
		}
	case *ast.ParenExpr:
		return argVarName(a.X)
	}
	return ""
}

// a call whose callee writes through some of its arguments and/or whose results are bound to `lhs`
func (t *tr) callStmt(x *ast.CallExpr, lhs []ast.Expr, define bool, sc *sctx, k string) string {
	if rs := t.forEachAsRange(x); rs != nil && len(lhs) == 0 {
		return t.rangeStmt(rs, sc, k)
	}
	c, hs := t.newE(sc)
	// PutUint64 through an alias
	if sel, ok := x.Fun.(*ast.SelectorExpr); ok {
		if inner, ok := sel.X.(*ast.SelectorExpr); ok {
			if id, ok := inner.X.(*ast.Ident); ok && id.Name == "binary" && inner.Sel.Name == "LittleEndian" && sel.Sel.Name == "PutUint64" {
				se, ok := x.Args[0].(*ast.SliceExpr)
				if !ok || se.High != nil || se.Low == nil || sc.monad == "pure" {
					t.fail(x, "unsupported PutUint64 destination")
				}
				name := argVarName(se.X)
				if p, ok := se.X.(*ast.ParenExpr); ok {
					if st, ok := p.X.(*ast.StarExpr); ok {
						name = argVarName(st.X)
					}
				}
				if name == "" {
					t.fail(x, "unsupported PutUint64 destination")
				}
				comb := "GoSem.optR"
				if sc.monad == "loop" {
					comb = "GoSem.optL"
				}
				body := comb + " (GoSem.putU64At " + lname(name) + " " + t.expr(se.Low, c) + " " + t.expr(x.Args[1], c) + ") (fun " + lname(name) + " =>\n" + k + ")"
				return t.wrapHoists(*hs, body, sc)
			}
		}
	}
	if sel, ok := x.Fun.(*ast.SelectorExpr); ok {
		if id, ok := sel.X.(*ast.Ident); ok {
			if pn, ok := t.info.Uses[id].(*types.PkgName); ok && pn.Imported().Path() == "sort" && sel.Sel.Name == "Float64s" && len(lhs) == 0 {
				v := "(GoSem.sortFloat64s " + t.expr(x.Args[0], c) + ")"
				return t.wrapHoists(*hs, t.assignTo(x.Args[0], v, c, sc, k), sc)
			}
			if pn, ok := t.info.Uses[id].(*types.PkgName); ok && pn.Imported().Path() == "sort" && sel.Sel.Name == "Ints" && len(lhs) == 0 {
				v := "(GoSem.sortInts " + t.expr(x.Args[0], c) + ")"
				return t.wrapHoists(*hs, t.assignTo(x.Args[0], v, c, sc, k), sc)
			}
		}
	}
	if id, ok := x.Fun.(*ast.Ident); ok && id.Name == "delete" && len(lhs) == 0 {
		if _, ok := t.info.Uses[id].(*types.Builtin); ok {
			dk := t.expr(x.Args[1], c)
			if mt, ok := t.typeOf(x.Args[0]).Underlying().(*types.Map); ok {
				dk = t.mapKey(mt, x.Args[1], c)
			}
			v := "(GoSem.mdelete " + t.expr(x.Args[0], c) + " " + dk + ")"
			return t.wrapHoists(*hs, t.assignTo(x.Args[0], v, c, sc, k), sc)
		}
	}
	if key := t.sortSliceKey(x); key != "" && len(lhs) == 0 {
		v := "(GoSem.sortOn (fun e => e." + key + ") " + t.expr(x.Args[0], c) + ")"
		return t.wrapHoists(*hs, t.assignTo(x.Args[0], v, c, sc, k), sc)
	}
	if id, ok := x.Fun.(*ast.Ident); ok && id.Name == "copy" && len(lhs) == 0 {
		if _, ok := t.info.Uses[id].(*types.Builtin); ok {
			return t.copyStmt(x, c, hs, sc, k)
		}
	}
	fi, args := t.callee(x, c)
	if fi == nil || (fi.decl == nil && !fi.extern) {
		// a pure expression call (library function, intrinsic) bound to lhs
		if len(lhs) == 1 {
			v := t.expr(x, c)
			return t.wrapHoists(*hs, t.assignTo(lhs[0], v, c, sc, k), sc)
		}
		t.fail(x, "unsupported call statement")
	}
	// pattern: mutated arguments first, then results
	var pats []string
	var argExprs []ast.Expr
	if fi.recv != nil {
		_, rx := t.explicitSel(x.Fun.(*ast.SelectorExpr))
		argExprs = append(argExprs, rx)
	}
	argExprs = append(argExprs, x.Args...)
	var post []struct {
		lhs ast.Expr
		tmp string
	}
	if fi.stCallback {
		pats = append(pats, "«st»")
	}
	if fi.stateful {
		_, sp, _ := t.stateOfPat(fi, x)
		pats = append(pats, sp)
	}
	for _, mi := range fi.mutated {
		n := argVarName(argExprs[mi])
		if n == "" {
			// a field of a variable (`s.positiveValueStore.Add(…)`): bind the new value, then store it back
			if baseIdent(argExprs[mi]) == nil {
				t.fail(x, "argument written through a pointer must be a variable or a field of one")
			}
			tn := t.tmp()
			pats = append(pats, tn)
			post = append(post, struct {
				lhs ast.Expr
				tmp string
			}{argExprs[mi], tn})
			continue
		}
		pats = append(pats, lname(n))
	}
	nres := fi.sig.Results().Len()
	var convs [][2]string // (F64 temporary, exact-weight name): float results of code of another package, in "rat" mode
	for i := 0; i < nres; i++ {
		if i < len(lhs) && fi.extern && fi.oracle == "" && !fi.noFuel && t.rat() && isFloat(fi.sig.Results().At(i).Type()) {
			if id, ok := lhs[i].(*ast.Ident); ok && id.Name != "_" {
				n := t.tmp()
				pats = append(pats, n)
				convs = append(convs, [2]string{n, lname(id.Name)})
				continue
			} else if !ok {
				t.fail(x, "float result of a function of another package assigned to a non-variable")
			}
		}
		if i < len(lhs) {
			if id, ok := lhs[i].(*ast.Ident); ok {
				if id.Name == "_" {
					pats = append(pats, "_")
				} else {
					pats = append(pats, lname(id.Name))
				}
				continue
			}
			n := t.tmp()
			pats = append(pats, n)
			post = append(post, struct {
				lhs ast.Expr
				tmp string
			}{lhs[i], n})
		} else {
			pats = append(pats, "_")
		}
	}
	for i := len(post) - 1; i >= 0; i-- {
		k = t.assignTo(post[i].lhs, post[i].tmp, c, sc, k)
	}
	for i := len(convs) - 1; i >= 0; i-- {
		// a weight read by the float64 codecs enters the exact envelope: NaN and the infinities are outside it (panic)
		comb := "GoSem.optR"
		if sc.monad == "loop" {
			comb = "GoSem.optL"
		}
		if sc.monad == "pure" {
			t.fail(x, "float result of a function of another package in a pure function")
		}
		k = comb + " (GoSem.ratOfF64 " + convs[i][0] + ") (fun " + convs[i][1] + " =>\n" + k + ")"
	}
	pat := strings.Join(pats, ", ")
	if len(pats) > 1 {
		pat = "(" + pat + ")"
	}
	if len(pats) == 0 {
		pat = "_"
	}
	app := t.apply(fi, args)
	var body string
	if fi.res {
		comb := "Res.bind"
		if sc.monad == "loop" {
			comb = "Res.bindL"
		}
		if sc.monad == "pure" {
			t.fail(x, "fallible call in a pure function")
		}
		body = comb + " (" + app + ") (fun " + pat + " =>\n" + k + ")"
	} else {
		body = "let " + pat + " := " + app + "\n" + k
	}
	return t.wrapHoists(*hs, body, sc)
}

// `sort.Slice(x, func(i, j int) bool { return x[i].f < x[j].f })` with an int field f: the field name ("" otherwise)
func (t *tr) sortSliceKey(x *ast.CallExpr) string {
	sel, ok := x.Fun.(*ast.SelectorExpr)
	if !ok || len(x.Args) != 2 {
		return ""
	}
	id, ok := sel.X.(*ast.Ident)
	if !ok {
		return ""
	}
	pn, ok := t.info.Uses[id].(*types.PkgName)
	if !ok || pn.Imported().Path() != "sort" || sel.Sel.Name != "Slice" {
		return ""
	}
	fl, ok := x.Args[1].(*ast.FuncLit)
	if !ok || len(fl.Body.List) != 1 || fl.Type.Params.NumFields() != 2 {
		t.fail(x, "unsupported sort.Slice comparison")
	}
	ret, ok := fl.Body.List[0].(*ast.ReturnStmt)
	if !ok || len(ret.Results) != 1 {
		t.fail(x, "unsupported sort.Slice comparison")
	}
	be, ok := ret.Results[0].(*ast.BinaryExpr)
	if !ok || be.Op != token.LSS {
		t.fail(x, "unsupported sort.Slice comparison")
	}
	var names []string
	for _, f := range fl.Type.Params.List {
		for _, n := range f.Names {
			names = append(names, n.Name)
		}
	}
	field := func(e ast.Expr, iv string) string {
		s, ok := e.(*ast.SelectorExpr)
		if !ok {
			return ""
		}
		ix, ok := s.X.(*ast.IndexExpr)
		if !ok {
			return ""
		}
		a, ok1 := ix.X.(*ast.Ident)
		b, ok2 := x.Args[0].(*ast.Ident)
		i, ok3 := ix.Index.(*ast.Ident)
		if !ok1 || !ok2 || !ok3 || a.Name != b.Name || i.Name != iv || !isInt(t.typeOf(s)) {
			return ""
		}
		return s.Sel.Name
	}
	f1, f2 := field(be.X, names[0]), field(be.Y, names[1])
	if f1 == "" || f1 != f2 {
		t.fail(x, "unsupported sort.Slice comparison")
	}
	return lname(f1)
}

// `x.ForEach(func(index int, count float64) (stop bool) { BODY; return false })` on a value of a declared store
// class, with no other `return` in BODY: a loop over the bins the store enumerates (`StoreI.ForEachList x`), in the
// store's order; variables of the enclosing function that BODY assigns become loop state as in any loop.
func (t *tr) forEachAsRange(x *ast.CallExpr) *ast.RangeStmt {
	sel, ok := x.Fun.(*ast.SelectorExpr)
	if !ok || sel.Sel.Name != "ForEach" || len(x.Args) != 1 {
		return nil
	}
	lit, ok := x.Args[0].(*ast.FuncLit)
	if !ok {
		return nil
	}
	nm, ok := t.typeOf(sel.X).(*types.Named)
	if !ok || nm.Obj().Pkg() == nil {
		return nil
	}
	is, ok := t.unit.Ifaces[nm.Obj().Pkg().Name()+"."+nm.Obj().Name()]
	if !ok {
		return nil
	}
	var names []*ast.Ident
	for _, f := range lit.Type.Params.List {
		names = append(names, f.Names...)
	}
	n := len(lit.Body.List)
	if len(names) != 2 || n == 0 {
		t.fail(x, "unsupported ForEach callback")
	}
	simple := false
	if last, ok := lit.Body.List[n-1].(*ast.ReturnStmt); ok && len(last.Results) == 1 {
		if id, ok := last.Results[0].(*ast.Ident); ok && id.Name == "false" {
			simple = true
			ast.Inspect(&ast.BlockStmt{List: lit.Body.List[:n-1]}, func(m ast.Node) bool {
				if _, ok := m.(*ast.ReturnStmt); ok {
					simple = false
				}
				return simple
			})
		}
	}
	var body *ast.BlockStmt
	if simple {
		body = &ast.BlockStmt{Lbrace: lit.Body.Lbrace, List: lit.Body.List[:n-1], Rbrace: lit.Body.Rbrace}
	} else {
		// the general form: `return e` is `if e { break } else { continue }` (the enumeration stops when the callback
		// returns true); the literal must not name its result and must return on every path
		if lit.Type.Results == nil || len(lit.Type.Results.List) != 1 || len(lit.Type.Results.List[0].Names) != 0 {
			t.fail(x, "unsupported ForEach callback (named result with early returns)")
		}
		if _, ok := lit.Body.List[n-1].(*ast.ReturnStmt); !ok {
			t.fail(x, "unsupported ForEach callback (must end with a return)")
		}
		body = &ast.BlockStmt{Lbrace: lit.Body.Lbrace, List: t.returnsAsJumps(lit.Body.List), Rbrace: lit.Body.Rbrace}
	}
	rs := &ast.RangeStmt{For: lit.Pos(), Key: names[0], Value: names[1], Tok: token.DEFINE, X: sel.X, Body: body}
	if t.forEachRange == nil {
		t.forEachRange = map[*ast.RangeStmt]string{}
	}
	t.forEachRange[rs] = is.Class
	return rs
}

// the body of a ForEach callback as a loop body: `return e` => `if e { break } else { continue }`
func (t *tr) returnsAsJumps(list []ast.Stmt) []ast.Stmt {
	var out []ast.Stmt
	for _, st := range list {
		switch x := st.(type) {
		case *ast.ReturnStmt:
			if len(x.Results) != 1 {
				t.fail(x, "unsupported return in a ForEach callback")
			}
			brk := &ast.BranchStmt{TokPos: x.Pos(), Tok: token.BREAK}
			cont := &ast.BranchStmt{TokPos: x.Pos(), Tok: token.CONTINUE}
			if id, ok := x.Results[0].(*ast.Ident); ok && (id.Name == "false" || id.Name == "true") {
				if _, isConst := t.info.Uses[id].(*types.Const); isConst {
					if id.Name == "true" {
						out = append(out, brk)
					} else {
						out = append(out, cont)
					}
					continue
				}
			}
			out = append(out, &ast.IfStmt{If: x.Pos(), Cond: x.Results[0], Body: &ast.BlockStmt{Lbrace: x.Pos(), List: []ast.Stmt{brk}, Rbrace: x.End()},
				Else: &ast.BlockStmt{Lbrace: x.Pos(), List: []ast.Stmt{cont}, Rbrace: x.End()}})
		case *ast.BlockStmt:
			out = append(out, &ast.BlockStmt{Lbrace: x.Lbrace, List: t.returnsAsJumps(x.List), Rbrace: x.Rbrace})
		case *ast.IfStmt:
			c := *x
			c.Body = &ast.BlockStmt{Lbrace: x.Body.Lbrace, List: t.returnsAsJumps(x.Body.List), Rbrace: x.Body.Rbrace}
			if x.Else != nil {
				c.Else = t.returnsAsJumps([]ast.Stmt{x.Else})[0]
			}
			out = append(out, &c)
		default:
			ast.Inspect(st, func(m ast.Node) bool {
				if r, ok := m.(*ast.ReturnStmt); ok {
					t.fail(r, "return inside a loop or switch of a ForEach callback")
				}
				return true
			})
			out = append(out, st)
		}
	}
	return out
}

// `copy(dst, src)` as a statement.  `copy(x[a:], x[b:c])` on one slice is a memmove inside it
// (`GoSem.copyWithin`); otherwise the destination variable receives `GoSem.copySlice dst src`.
func (t *tr) copyStmt(x *ast.CallExpr, c *ectx, hs *[]hoist, sc *sctx, k string) string {
	comb := "GoSem.optR"
	if sc.monad == "loop" {
		comb = "GoSem.optL"
	}
	dst, src := x.Args[0], x.Args[1]
	if d, ok := dst.(*ast.SliceExpr); ok {
		if sc.monad == "pure" {
			t.fail(x, "copy inside a slice in a pure function")
		}
		s2, ok2 := src.(*ast.SliceExpr)
		if !ok2 {
			s2 = &ast.SliceExpr{X: src} // copy(x[a:], x): the whole slice as the source
		}
		if d.High != nil || d.Low == nil || d.Slice3 || s2.Slice3 {
			t.fail(x, "unsupported copy form")
		}
		base := t.expr(d.X, c)
		if base != t.expr(s2.X, c) {
			t.fail(x, "copy between slices of different variables")
		}
		dlo := t.expr(d.Low, c)
		slo, shi := "(0 : Int)", "(GoSem.len "+base+")" // x[lo:] / x[:hi] / x as the source: the missing bounds
		if s2.Low != nil {
			slo = t.expr(s2.Low, c)
		}
		if s2.High != nil {
			shi = t.expr(s2.High, c)
		}
		tn := t.tmp()
		body := comb + " (GoSem.copyWithin " + base + " " + dlo + " " + slo + " " + shi + ") (fun " + tn + " =>\n" +
			t.assignTo(d.X, tn, c, sc, k) + ")"
		return t.wrapHoists(*hs, body, sc)
	}
	if baseIdent(dst) == nil {
		t.fail(x, "unsupported copy destination")
	}
	v := "(GoSem.copySlice " + t.expr(dst, c) + " " + t.expr(src, c) + ")"
	return t.wrapHoists(*hs, t.assignTo(dst, v, c, sc, k), sc)
}

// does the node call a translated or extern function that returns Res?
func (t *tr) callsFallible(n ast.Node) bool {
	found := false
	ast.Inspect(n, func(m ast.Node) bool {
		if e, ok := m.(*ast.CallExpr); ok {
			var obj types.Object
			switch f := e.Fun.(type) {
			case *ast.Ident:
				obj = t.info.Uses[f]
			case *ast.SelectorExpr:
				obj = t.info.Uses[f.Sel]
			}
			if fi := t.byObj[obj]; fi != nil && fi.res {
				found = true
			}
		}
		return !found
	})
	return found
}

func hasJump(n ast.Node) bool {
	found := false
	ast.Inspect(n, func(m ast.Node) bool {
		switch m.(type) {
		case *ast.ReturnStmt, *ast.BranchStmt, *ast.ForStmt, *ast.RangeStmt:
			found = true
		}
		return !found
	})
	return found
}

// can the statements be rendered as plain lets (no fallible binds, no jumps)?
func (t *tr) isSimple(stmts []ast.Stmt) bool {
	ok := true
	for _, s := range stmts {
		if hasJump(s) {
			return false
		}
		ast.Inspect(s, func(m ast.Node) bool {
			switch e := m.(type) {
			case *ast.IndexExpr:
				if _, isMap := t.typeOf(e.X).Underlying().(*types.Map); !isMap {
					ok = false
				}
			case *ast.SliceExpr:
				ok = false
			case *ast.CallExpr:
				if tv, isT := t.info.Types[e.Fun]; isT && tv.IsType() {
					return true
				}
				var obj types.Object
				switch f := e.Fun.(type) {
				case *ast.Ident:
					obj = t.info.Uses[f]
				case *ast.SelectorExpr:
					obj = t.info.Uses[f.Sel]
				}
				if fi := t.byObj[obj]; fi != nil && fi.res {
					ok = false
				}
				if obj != nil && (obj.Name() == "PutUint64" || obj.Name() == "Uint64") {
					ok = false
				}
			case *ast.Ident:
				if v, isV := t.info.Uses[e].(*types.Var); isV && t.varRes[v] {
					ok = false
				}
			}
			return ok
		})
	}
	return ok
}

// outer variables (declared outside `scope`) assigned within the statements, in first-assignment order
func (t *tr) assignedOuter(nodes []ast.Node, declaredInside func(types.Object) bool) []*types.Var {
	var out []*types.Var
	seen := map[*types.Var]bool{}
	add := func(e ast.Expr) {
		id := baseIdent(e)
		if id == nil || id.Name == "_" {
			return
		}
		obj := t.info.Uses[id]
		if obj == nil {
			return // a definition
		}
		v, ok := obj.(*types.Var)
		if !ok || declaredInside(v) || seen[v] {
			return
		}
		seen[v] = true
		out = append(out, v)
	}
	for _, n := range nodes {
		ast.Inspect(n, func(m ast.Node) bool {
			switch s := m.(type) {
			case *ast.AssignStmt:
				for _, l := range s.Lhs {
					add(l)
				}
			case *ast.IncDecStmt:
				add(s.X)
			case *ast.CallExpr:
				// arguments written through by the callee
				var obj types.Object
				var recv ast.Expr
				switch f := s.Fun.(type) {
				case *ast.Ident:
					obj = t.info.Uses[f]
				case *ast.SelectorExpr:
					obj = t.info.Uses[f.Sel]
					recv = f.X
				}
				if fi := t.byObj[obj]; fi != nil {
					var argExprs []ast.Expr
					if fi.recv != nil {
						argExprs = append(argExprs, recv)
					}
					argExprs = append(argExprs, s.Args...)
					for _, mi := range fi.mutated {
						if mi < len(argExprs) {
							add(argExprs[mi])
						}
					}
					// a call of the state-passing callback (or passing it on) rebinds the state `«st»`
					passesOn := false
					if fi.stateful && fi.stIdx < len(s.Args) {
						if id, ok := unparen(s.Args[fi.stIdx]).(*ast.Ident); ok {
							if pf := t.byObj[t.info.Uses[id]]; pf != nil && pf.stCallback {
								passesOn = true
							}
						}
					}
					if (fi.stCallback || passesOn) && t.cur != nil && t.cur.stVar != nil {
						if v := t.cur.stVar; !declaredInside(v) && !seen[v] {
							seen[v] = true
							out = append(out, v)
						}
					}
				}
				if obj != nil && obj.Name() == "PutUint64" && len(s.Args) > 0 {
					if se, ok := s.Args[0].(*ast.SliceExpr); ok {
						x := se.X
						if p, ok := x.(*ast.ParenExpr); ok {
							x = p.X
						}
						add(x)
					}
				}
				if obj != nil && (obj.Name() == "Float64s" || obj.Name() == "Ints") && obj.Pkg() != nil && obj.Pkg().Path() == "sort" && len(s.Args) > 0 {
					add(s.Args[0])
				}
				if _, isB := obj.(*types.Builtin); isB && obj.Name() == "copy" && len(s.Args) == 2 {
					if se, ok := s.Args[0].(*ast.SliceExpr); ok {
						add(se.X)
					} else {
						add(s.Args[0])
					}
				}
				if _, isB := obj.(*types.Builtin); isB && obj.Name() == "delete" && len(s.Args) == 2 {
					add(s.Args[0])
				}
				if obj != nil && obj.Name() == "Slice" && obj.Pkg() != nil && obj.Pkg().Path() == "sort" && len(s.Args) > 0 {
					add(s.Args[0])
				}
			}
			return true
		})
	}
	return out
}

func within(n ast.Node) func(types.Object) bool {
	return func(o types.Object) bool { return o.Pos() >= n.Pos() && o.Pos() < n.End() }
}

func tuple(names []string) string {
	if len(names) == 1 {
		return names[0]
	}
	return "(" + strings.Join(names, ", ") + ")"
}

func (t *tr) stmts(list []ast.Stmt, sc *sctx, k string) string {
	if len(list) == 0 {
		return k
	}
	return t.stmt(list[0], sc, func() string { return t.stmts(list[1:], sc, k) })
}

// k is lazy so that a terminating statement does not translate (and possibly reject) dead code
func (t *tr) stmt(s ast.Stmt, sc *sctx, kf func() string) string {
	switch x := s.(type) {
	case *ast.BlockStmt:
		return t.stmts(x.List, sc, kf())
	case *ast.ExprStmt:
		call, ok := x.X.(*ast.CallExpr)
		if !ok {
			t.fail(s, "unsupported expression statement")
		}
		return t.callStmt(call, nil, false, sc, kf())
	case *ast.DeclStmt:
		gd := x.Decl.(*ast.GenDecl)
		k := kf()
		for i := len(gd.Specs) - 1; i >= 0; i-- {
			vs, ok := gd.Specs[i].(*ast.ValueSpec)
			if !ok {
				t.fail(s, "unsupported declaration")
			}
			for j := len(vs.Names) - 1; j >= 0; j-- {
				c, hs := t.newE(sc)
				var v string
				if j < len(vs.Values) {
					v = t.expr(vs.Values[j], c)
				} else {
					v = t.zero(s, t.info.Defs[vs.Names[j]].Type())
				}
				k = t.wrapHoists(*hs, "let "+lname(vs.Names[j].Name)+" : "+t.leanType(t.info.Defs[vs.Names[j]].Type())+" := "+v+"\n"+k, sc)
			}
		}
		return k
	case *ast.IncDecStmt:
		c, hs := t.newE(sc)
		op := " + "
		if x.Tok == token.DEC {
			op = " - "
		}
		ty := t.typeOf(x.X)
		one := "1"
		if isBV(ty) {
			one = fmt.Sprintf("1#%d", bvWidth(ty))
		}
		v := "(" + t.expr(x.X, c) + op + one + ")"
		if isFloat(ty) && !t.rat() {
			fn := "add"
			if x.Tok == token.DEC {
				fn = "sub"
			}
			v = "(" + t.fop(fn) + " " + t.expr(x.X, c) + " " + t.constOfType(x, constant.MakeInt64(1), ty) + ")"
		}
		return t.wrapHoists(*hs, t.assignTo(x.X, v, c, sc, kf()), sc)
	case *ast.AssignStmt:
		if len(x.Rhs) == 1 {
			if ta, ok := x.Rhs[0].(*ast.TypeAssertExpr); ok {
				conc := t.specialised(ta.X)
				want := ""
				if st, ok := ta.Type.(*ast.StarExpr); ok {
					if id, ok := st.X.(*ast.Ident); ok {
						want = id.Name
					}
				}
				if conc == "" || conc != want || len(x.Lhs) != 2 || x.Tok != token.DEFINE {
					t.fail(s, "type assertion (only `o, ok := p.(*T)` on a parameter specialised to T is translated)")
				}
				if okId, isId := x.Lhs[1].(*ast.Ident); isId && okId.Name != "_" {
					if t.knownTrue == nil {
						t.knownTrue = map[types.Object]bool{}
					}
					t.knownTrue[t.info.Defs[okId]] = true
				}
				c, _ := t.newE(sc)
				return t.assignTo(x.Lhs[0], t.expr(ta.X, c), c, sc, kf())
			}
			if call, ok := x.Rhs[0].(*ast.CallExpr); ok {
				if tv, isT := t.info.Types[call.Fun]; !(isT && tv.IsType()) {
					var obj types.Object
					switch f := call.Fun.(type) {
					case *ast.Ident:
						obj = t.info.Uses[f]
					case *ast.SelectorExpr:
						obj = t.info.Uses[f.Sel]
					}
					if fi := t.byObj[obj]; fi != nil && (len(fi.mutated) > 0 || len(x.Lhs) > 1) && x.Tok != token.ADD_ASSIGN {
						if x.Tok != token.DEFINE && x.Tok != token.ASSIGN {
							t.fail(s, "unsupported assignment operator with a call")
						}
						return t.callStmt(call, x.Lhs, x.Tok == token.DEFINE, sc, kf())
					}
				}
			}
		}
		if len(x.Lhs) != len(x.Rhs) {
			t.fail(s, "unsupported multi-value assignment")
		}
		if len(x.Lhs) > 1 {
			t.fail(s, "parallel assignment is not translated")
		}
		c, hs := t.newE(sc)
		var v string
		switch x.Tok {
		case token.DEFINE, token.ASSIGN:
			if id, ok := x.Rhs[0].(*ast.Ident); ok && id.Name == "nil" && x.Tok == token.ASSIGN {
				if _, isSl := t.typeOf(x.Lhs[0]).Underlying().(*types.Slice); isSl {
					v = "([] : " + t.leanType(t.typeOf(x.Lhs[0])) + ")" // `x = nil` for a slice
					break
				}
			}
			v = t.expr(x.Rhs[0], c)
		default:
			ops := map[token.Token]token.Token{token.ADD_ASSIGN: token.ADD, token.SUB_ASSIGN: token.SUB, token.MUL_ASSIGN: token.MUL,
				token.QUO_ASSIGN: token.QUO, token.OR_ASSIGN: token.OR, token.AND_ASSIGN: token.AND, token.XOR_ASSIGN: token.XOR,
				token.SHL_ASSIGN: token.SHL, token.SHR_ASSIGN: token.SHR}
			op, ok := ops[x.Tok]
			if !ok {
				t.fail(s, "unsupported assignment operator")
			}
			be := &ast.BinaryExpr{X: x.Lhs[0], Op: op, Y: x.Rhs[0], OpPos: x.TokPos}
			t.info.Types[be] = types.TypeAndValue{Type: t.typeOf(x.Lhs[0])}
			v = t.binary(be, c)
		}
		return t.wrapHoists(*hs, t.assignTo(x.Lhs[0], v, c, sc, kf()), sc)
	case *ast.ReturnStmt:
		c, hs := t.newE(sc)
		var vals []string
		vals = append(vals, t.cur.retState...)
		for _, mi := range t.cur.mutated {
			vals = append(vals, lname(t.cur.allParams()[mi].Name()))
		}
		if len(x.Results) == 0 && t.cur.sig.Results().Len() > 0 {
			// a bare `return` with named results
			for i := 0; i < t.cur.sig.Results().Len(); i++ {
				vals = append(vals, lname(t.cur.sig.Results().At(i).Name()))
			}
		}
		if len(x.Results) == 1 {
			// `return f(args)` where f is translated and writes through a pointer, is fallible, or
			// returns several values: bind its results first
			if call, ok := x.Results[0].(*ast.CallExpr); ok {
				if tv, isT := t.info.Types[call.Fun]; !(isT && tv.IsType()) {
					var obj types.Object
					switch f := call.Fun.(type) {
					case *ast.Ident:
						obj = t.info.Uses[f]
					case *ast.SelectorExpr:
						obj = t.info.Uses[f.Sel]
					}
					if fi := t.byObj[obj]; fi != nil && (len(fi.mutated) > 0 || fi.sig.Results().Len() > 1 || fi.stateful || fi.stCallback) {
						var lhs []ast.Expr
						var names []string
						for i := 0; i < fi.sig.Results().Len(); i++ {
							n := t.tmp()
							lhs = append(lhs, ast.NewIdent(n))
							if fi.sig.Results().Len() == t.cur.sig.Results().Len() {
								names = append(names, t.sumWrap(call, i, n, fi.sig.Results().At(i).Type()))
							} else {
								names = append(names, n)
							}
						}
						return t.callStmt(call, lhs, true, sc, t.ret(tuple(append(vals, names...)), sc))
					}
				}
			}
		}
		if len(x.Results) == 1 && t.cur.sig.Results().Len() > 1 {
			t.fail(s, "return of a multi-value call")
		}
		for i, r := range x.Results {
			// `return nil, err` for a pointer-to-struct result: the struct's zero value
			if id, ok := r.(*ast.Ident); ok && id.Name == "nil" {
				rt := t.cur.sig.Results().At(i).Type()
				if w := t.sumWrap(r, i, "", nil); w != "" {
					vals = append(vals, w)
					continue
				}
				if p, ok := rt.(*types.Pointer); ok {
					vals = append(vals, t.zero(r, p.Elem()))
					continue
				}
				if _, ok := rt.Underlying().(*types.Slice); ok {
					vals = append(vals, "[]") // a nil slice
					continue
				}
			}
			if i < t.cur.sig.Results().Len() && len(x.Results) == t.cur.sig.Results().Len() {
				vals = append(vals, t.sumWrap(r, i, t.expr(r, c), t.typeOf(r)))
			} else {
				vals = append(vals, t.expr(r, c))
			}
		}
		return t.wrapHoists(*hs, t.ret(tuple(vals), sc), sc)
	case *ast.BranchStmt:
		if x.Label != nil {
			t.fail(s, "labelled branch")
		}
		switch x.Tok {
		case token.BREAK:
			if sc.brk != "" {
				return sc.brk
			}
		case token.CONTINUE:
			if sc.cont != "" {
				return sc.cont
			}
		}
		t.fail(s, "unsupported branch statement")
	case *ast.IfStmt:
		if x.Init != nil {
			// `if init; cond { … }`: the init statement, then the if (the names it declares stay in scope
			// afterwards, which is harmless: Go code after the if cannot refer to them)
			rest := *x
			rest.Init = nil
			return t.stmt(x.Init, sc, func() string { return t.stmt(&rest, sc, kf) })
		}
		if u, ok := x.Cond.(*ast.UnaryExpr); ok && u.Op == token.NOT && x.Else == nil {
			if id, ok := u.X.(*ast.Ident); ok && t.knownTrue[t.info.Uses[id]] {
				return kf() // `if !ok { … }` after a type assertion that succeeds by specialisation: dead code
			}
		}
		if id, ok := x.Cond.(*ast.Ident); ok && id.Name == "false" && x.Else == nil {
			if _, isConst := t.info.Uses[id].(*types.Const); isConst {
				return kf() // `if false { … }` (a comparison decided by the unit's specialisation): dead code
			}
		}
		var elseList []ast.Stmt
		if x.Else != nil {
			elseList = []ast.Stmt{x.Else}
		}
		if sc.monad != "pure" && t.needsSplit(x.Cond) {
			// a fallible step (index, fallible call) in the right operand of && / ||: nested ifs, so that the step is
			// only evaluated when Go evaluates it; the continuation is duplicated
			k := kf()
			return t.branch(x.Cond, sc, t.stmts(x.Body.List, sc, k), t.stmts(elseList, sc, k))
		}
		c, hs := t.newE(sc)
		cond := t.expr(x.Cond, c)
		if t.isSimple(x.Body.List) && t.isSimple(elseList) {
			// join form: let vs := if c then … else …
			nodes := []ast.Node{x.Body}
			if x.Else != nil {
				nodes = append(nodes, x.Else)
			}
			vs := t.assignedOuter(nodes, within(x))
			if len(vs) == 0 {
				return t.wrapHoists(*hs, kf(), sc)
			}
			var names []string
			for _, v := range vs {
				names = append(names, lname(v.Name()))
			}
			tu := tuple(names)
			pure := &sctx{monad: "pure"}
			th := t.stmts(x.Body.List, pure, tu)
			el := t.stmts(elseList, pure, tu)
			return t.wrapHoists(*hs, "let "+tu+" := if "+cond+" then\n"+th+"\nelse\n"+el+"\n"+kf(), sc)
		}
		if t.unit.JoinIfs && sc.monad != "pure" && !hasJump(x.Body) && (x.Else == nil || !hasJump(x.Else)) && t.callsFallible(x) {
			// join form through Res: Res.bind (if c then … .ok vs else … .ok vs) (fun vs => k)
			nodes := []ast.Node{x.Body}
			if x.Else != nil {
				nodes = append(nodes, x.Else)
			}
			vs := t.assignedOuter(nodes, within(x))
			if len(vs) > 0 {
				var names []string
				for _, v := range vs {
					names = append(names, lname(v.Name()))
				}
				tu := tuple(names)
				inner := &sctx{monad: "res"}
				th := t.stmts(x.Body.List, inner, ".ok "+tu)
				el := t.stmts(elseList, inner, ".ok "+tu)
				comb := "Res.bind"
				if sc.monad == "loop" {
					comb = "Res.bindL"
				}
				return t.wrapHoists(*hs, comb+" (if "+cond+" then\n"+th+"\nelse\n"+el+") (fun "+tu+" =>\n"+kf()+")", sc)
			}
		}
		k := kf()
		th := t.stmts(x.Body.List, sc, k)
		el := t.stmts(elseList, sc, k)
		return t.wrapHoists(*hs, "if "+cond+" then\n"+th+"\nelse\n"+el, sc)
	case *ast.SwitchStmt:
		return t.stmt(t.desugarSwitch(x), sc, kf)
	case *ast.ForStmt:
		return t.forStmt(x, sc, kf())
	case *ast.RangeStmt:
		return t.rangeStmt(x, sc, kf())
	}
	t.fail(s, "unsupported statement %T", s)
	return ""
}

// `switch tag { case a, b: …; default: … }` as a chain of `if tag == a || tag == b {…} else if … else {…}`.
// The tag must be a variable, a field or a pure method call on one (evaluated once per comparison; flags and
// sub-flags are values); `break` and `fallthrough` inside a switch are not translated.
func (t *tr) desugarSwitch(x *ast.SwitchStmt) ast.Stmt {
	if x.Init != nil {
		t.fail(x, "switch with an init statement")
	}
	ast.Inspect(x.Body, func(m ast.Node) bool {
		switch b := m.(type) {
		case *ast.ForStmt, *ast.RangeStmt, *ast.FuncLit:
			return false
		case *ast.BranchStmt:
			if b.Tok == token.BREAK || b.Tok == token.FALLTHROUGH {
				t.fail(b, "break / fallthrough inside a switch")
			}
		}
		return true
	})
	boolT := types.Typ[types.Bool]
	var clauses []*ast.CaseClause
	var def *ast.CaseClause
	for _, st := range x.Body.List {
		cc := st.(*ast.CaseClause)
		if cc.List == nil {
			def = cc
		} else {
			clauses = append(clauses, cc)
		}
	}
	var elseStmt ast.Stmt
	if def != nil {
		elseStmt = &ast.BlockStmt{List: def.Body}
	}
	for i := len(clauses) - 1; i >= 0; i-- {
		cc := clauses[i]
		var cond ast.Expr
		for _, e := range cc.List {
			var c ast.Expr = e
			if x.Tag != nil {
				be := &ast.BinaryExpr{X: x.Tag, Op: token.EQL, Y: e}
				t.info.Types[be] = types.TypeAndValue{Type: boolT}
				c = be
			}
			if cond == nil {
				cond = c
			} else {
				or := &ast.BinaryExpr{X: cond, Op: token.LOR, Y: c}
				t.info.Types[or] = types.TypeAndValue{Type: boolT}
				cond = or
			}
		}
		is := &ast.IfStmt{Cond: cond, Body: &ast.BlockStmt{List: cc.Body}}
		if elseStmt != nil {
			is.Else = elseStmt
		}
		elseStmt = is
	}
	if elseStmt == nil {
		return &ast.BlockStmt{}
	}
	return elseStmt
}

func (t *tr) ret(v string, sc *sctx) string {
	switch sc.monad {
	case "pure":
		return v
	case "res":
		return ".ok " + v
	}
	return ".ret " + v
}

func (t *tr) paramType(fi *funcInfo, p *types.Var) string {
	if m, ok := t.unit.Specialise[fi.key]; ok {
		if conc, ok := m[p.Name()]; ok {
			return t.structNS() + "." + conc
		}
	}
	if t.byObj[p] != nil && t.byObj[p].stCallback {
		return t.sigType(t.byObj[p].sig, true)
	}
	if t.nullableParam(fi.key, p) {
		return "Option (" + t.leanType(p.Type()) + ")"
	}
	return t.leanType(p.Type())
}

// a result declared with an interface type of this package (`Copy() Store`): the concrete type that every
// return statement returns
func (t *tr) resultType(fi *funcInfo, i int) string {
	rt := fi.sig.Results().At(i).Type()
	if nm, ok := rt.(*types.Named); ok && nm.Obj().Pkg() == t.pkg {
		if _, sum := t.unit.IfaceSum[nm.Obj().Name()]; sum {
			return t.sumType(nm.Obj().Name())
		}
		if _, isI := nm.Underlying().(*types.Interface); isI && fi.decl != nil {
			conc := ""
			ast.Inspect(fi.decl.Body, func(m ast.Node) bool {
				if _, isF := m.(*ast.FuncLit); isF {
					return false
				}
				if r, ok := m.(*ast.ReturnStmt); ok && i < len(r.Results) {
					rty := t.typeOf(r.Results[i])
					if tup, isTup := rty.(*types.Tuple); isTup && len(r.Results) == 1 && i < tup.Len() {
						rty = tup.At(i).Type() // `return g(…)` with a multi-value g
					}
					ty := t.leanType(rty)
					if conc != "" && conc != ty {
						t.fail(r, "returns of different concrete types for an interface result")
					}
					conc = ty
				}
				return true
			})
			if conc != "" {
				return conc
			}
		}
	}
	return t.leanType(rt)
}

func (t *tr) retType() string {
	var tys []string
	tys = append(tys, t.cur.retStateTy...)
	for _, mi := range t.cur.mutated {
		tys = append(tys, t.paramType(t.cur, t.cur.allParams()[mi]))
	}
	for i := 0; i < t.cur.sig.Results().Len(); i++ {
		tys = append(tys, t.resultType(t.cur, i))
	}
	if len(tys) == 0 {
		return "Unit"
	}
	return strings.Join(tys, " × ")
}

// `for _, v := range xs { body }` over a slice: structural recursion on the list (no fuel); the slice
// expression is evaluated once, as in Go
func (t *tr) rangeStmt(x *ast.RangeStmt, sc *sctx, k string) string {
	if sc.monad == "pure" {
		t.fail(x, "loop in a pure function")
	}
	mt, isMap := t.typeOf(x.X).Underlying().(*types.Map)
	feClass, isForEach := t.forEachRange[x]
	keyName := ""
	if x.Key != nil {
		id, ok := x.Key.(*ast.Ident)
		if !ok {
			t.fail(x, "range with a non-identifier index")
		}
		if id.Name != "_" {
			keyName = lname(id.Name) // slice: the index, an extra argument counted up from 0; map: the key
		}
	}
	var elemType string
	feConv := false // exact weights: a weight enumerated by a store of the class (float64) enters the exact envelope
	if isForEach {
		isMap = true // same shape as a map range: (key, value) pairs
		elemType = "Int × " + t.fl()
		if t.rat() {
			elemType = "Int × F64"
			feConv = true
		}
	} else if isMap {
		elemType = "Int × " + t.leanType(mt.Elem())
		// the loop may read, update or delete the entry of the current key only (iteration is over a snapshot)
		ast.Inspect(x.Body, func(m ast.Node) bool {
			if ix, ok := m.(*ast.IndexExpr); ok {
				if _, im := t.typeOf(ix.X).Underlying().(*types.Map); im && t.expr(ix.X, &ectx{}) == t.expr(x.X, &ectx{}) {
					if id, ok := ix.Index.(*ast.Ident); !ok || lname(id.Name) != keyName {
						t.fail(ix, "the ranged map is accessed at another key inside the loop")
					}
				}
			}
			return true
		})
	} else {
		sl, ok := t.typeOf(x.X).Underlying().(*types.Slice)
		if !ok {
			t.fail(x, "range over a non-slice")
		}
		elemType = t.leanType(sl.Elem())
	}
	val := "_"
	if id, ok := x.Value.(*ast.Ident); ok {
		val = lname(id.Name)
	}
	t.nLoop++
	name := fmt.Sprintf("%s.loop%d", t.cur.lean, t.nLoop)
	inside := func(o types.Object) bool { return o.Pos() >= x.Pos() && o.Pos() < x.End() }
	var free []*types.Var
	seen := map[*types.Var]bool{}
	ast.Inspect(x.Body, func(m ast.Node) bool {
		if id, ok := m.(*ast.Ident); ok {
			if v, ok := t.info.Uses[id].(*types.Var); ok && !v.IsField() && !inside(v) && !seen[v] && v.Pkg() == t.pkg {
				if _, isPkgVar := t.vars[v]; isPkgVar || v.Parent() == t.pkg.Scope() {
					return true
				}
				seen[v] = true
				free = append(free, v)
				if pf := t.byObj[v]; pf != nil && pf.stCallback && t.cur.stVar != nil && !seen[t.cur.stVar] {
					seen[t.cur.stVar] = true
					free = append(free, t.cur.stVar)
				}
			}
		}
		return true
	})
	state := t.assignedOuter([]ast.Node{x.Body}, inside)
	isState := map[*types.Var]bool{}
	var stNames, stTypes []string
	for _, v := range state {
		isState[v] = true
		stNames = append(stNames, lname(v.Name()))
		stTypes = append(stTypes, t.leanType(v.Type()))
	}
	noState := len(state) == 0
	if noState {
		// a loop that only reads (and may return): a unit state
		stNames, stTypes = []string{"«u»"}, []string{"Unit"}
	}
	// the body is translated first with a placeholder for the recursive call, so that we know whether it
	// needs `fuel` / `ord` (calls to fallible or map-ranging functions), which then become parameters
	const hole = "«REC»"
	stTuple := tuple(stNames)
	tail := " «rest» " + strings.Join(stNames, " ")
	if keyName != "" && !isMap {
		tail = " «rest» (" + keyName + " + 1) " + strings.Join(stNames, " ")
	}
	inner := &sctx{monad: "loop", brk: ".done " + stTuple, cont: hole + tail}
	body := t.stmts(x.Body.List, inner, hole+tail)
	if isMap && !isForEach && keyName != "" && isBV(mt.Key()) {
		// `map[int32]V`: the entry's key is the value of the int32; the loop variable is the int32 itself
		body = fmt.Sprintf("let %s : BitVec %d := BitVec.ofInt %d %s\n", keyName, bvWidth(mt.Key()), bvWidth(mt.Key()), keyName) + body
	}
	if feConv && val != "_" {
		body = "GoSem.optL (GoSem.ratOfF64 " + val + ") (fun " + val + " =>\n" + body + ")"
	}
	rec := name
	if t.typeArgs() != "" {
		rec += " " + t.typeArgs()
	}
	var sig strings.Builder
	sig.WriteString("def " + name)
	if t.unit.Mode == "mops" {
		sig.WriteString(" {F : Type} [MOps F]")
	}
	if t.typeParams() != "" {
		sig.WriteString(" " + t.typeParams())
	}
	if strings.Contains(body, " fuel") {
		// fuel is not consumed by a range loop (structural recursion); it is handed to the fallible callees
		rec += " fuel"
		sig.WriteString(" (fuel : Nat)")
	}
	if strings.Contains(body, " ord") {
		rec += " ord"
		sig.WriteString(" (ord : GoSem.MapOrder)")
	}
	for _, o := range t.oracleList {
		if mentionsName(body, o.oracle) {
			rec += " " + o.oracle
			sig.WriteString(" (" + o.oracle + " : " + t.oracleType(o) + ")")
		}
	}
	for _, v := range free {
		if !isState[v] {
			rec += " " + lname(v.Name())
			sig.WriteString(" (" + lname(v.Name()) + " : " + t.varType(v) + ")")
		}
	}
	body = strings.ReplaceAll(body, hole, rec)
	sig.WriteString(" : List (" + elemType + ")")
	keyPat := ""
	if keyName != "" && !isMap {
		sig.WriteString(" → Int")
		keyPat = keyName + ", "
	}
	for _, ty := range stTypes {
		sig.WriteString(" → " + ty)
	}
	sig.WriteString(" → Loop (" + strings.Join(stTypes, " × ") + ") (" + t.retType() + ")\n")
	sig.WriteString("  | [], " + keyPat + strings.Join(stNames, ", ") + " => .done " + stTuple + "\n")
	elemPat := val
	if isMap {
		kp := keyName
		if kp == "" {
			kp = "_"
		}
		elemPat = "(" + kp + ", " + val + ")"
	}
	sig.WriteString("  | " + elemPat + " :: «rest», " + keyPat + strings.Join(stNames, ", ") + " =>\n")
	sig.WriteString(indent(body, "    ") + "\n\n")
	t.aux.WriteString(sig.String())
	c, hs := t.newE(sc)
	xs := t.expr(x.X, c)
	if isForEach {
		xs = "(" + feClass + ".ForEachList " + xs + ")"
	} else if isMap {
		xs = "(GoSem.mrange ord " + xs + ")"
	}
	comb := "Loop.elim"
	if sc.monad == "loop" {
		comb = "Loop.elimL"
	}
	call := rec + " " + xs + " " + strings.Join(stNames, " ")
	if keyName != "" && !isMap {
		call = rec + " " + xs + " (0 : Int) " + strings.Join(stNames, " ")
	}
	if noState {
		return t.wrapHoists(*hs, "let «u» : Unit := ()\n"+comb+" ("+call+") (fun "+stTuple+" =>\n"+k+")", sc)
	}
	return t.wrapHoists(*hs, comb+" ("+call+") (fun "+stTuple+" =>\n"+k+")", sc)
}

// does the loop body contain a `break` that leaves this loop?
func breaksOut(body *ast.BlockStmt) bool {
	found := false
	var walk func(n ast.Node)
	walk = func(n ast.Node) {
		ast.Inspect(n, func(m ast.Node) bool {
			switch s := m.(type) {
			case *ast.ForStmt, *ast.SwitchStmt, *ast.SelectStmt, *ast.RangeStmt:
				return false // a break inside belongs to the inner statement
			case *ast.BranchStmt:
				if s.Tok == token.BREAK {
					found = true
				}
			}
			return !found
		})
	}
	walk(body)
	return found
}

func (t *tr) forStmt(x *ast.ForStmt, sc *sctx, k string) string {
	if sc.monad == "pure" {
		t.fail(x, "loop in a pure function")
	}
	if x.Cond == nil && !breaksOut(x.Body) {
		// `for { … }` without break is a terminating statement: what follows is dead code (the Go
		// compiler accepts a missing return after it); the state continuation is never taken
		k = ".panic"
	}
	t.nLoop++
	name := fmt.Sprintf("%s.loop%d", t.cur.lean, t.nLoop)
	// free local variables of the loop (declared outside cond/post/body), in order of first use
	inside := func(o types.Object) bool {
		return o.Pos() >= x.Body.Pos() && o.Pos() < x.Body.End()
	}
	var free []*types.Var
	seen := map[*types.Var]bool{}
	visit := func(n ast.Node) {
		if n == nil {
			return
		}
		ast.Inspect(n, func(m ast.Node) bool {
			if id, ok := m.(*ast.Ident); ok {
				obj := t.info.Uses[id]
				if v, ok := obj.(*types.Var); ok && !v.IsField() && !inside(v) && !seen[v] && v.Pkg() == t.pkg {
					if _, isPkgVar := t.vars[v]; isPkgVar || (v.Pkg() == t.pkg && v.Parent() == t.pkg.Scope()) {
						return true
					}
					seen[v] = true
					free = append(free, v)
					if pf := t.byObj[v]; pf != nil && pf.stCallback && t.cur.stVar != nil && !seen[t.cur.stVar] {
						seen[t.cur.stVar] = true
						free = append(free, t.cur.stVar)
					}
				}
			}
			return true
		})
	}
	if x.Cond != nil {
		visit(x.Cond)
	}
	visit(x.Body)
	if x.Post != nil {
		visit(x.Post)
	}
	nodes := []ast.Node{x.Body}
	if x.Post != nil {
		nodes = append(nodes, x.Post)
	}
	state := t.assignedOuter(nodes, inside)
	isState := map[*types.Var]bool{}
	for _, v := range state {
		isState[v] = true
	}
	var ro []*types.Var
	for _, v := range free {
		if !isState[v] {
			ro = append(ro, v)
		}
	}
	var stNames, stTypes []string
	for _, v := range state {
		stNames = append(stNames, lname(v.Name()))
		stTypes = append(stTypes, t.leanType(v.Type()))
	}
	noState := len(state) == 0
	if noState {
		stNames, stTypes = []string{"«u»"}, []string{"Unit"}
	}
	stTuple := tuple(stNames)
	stType := strings.Join(stTypes, " × ")
	recHole := fmt.Sprintf("«REC%d»", t.nLoop) // the loop function applied to its oracles, known once the body is translated
	rec := recHole
	if t.typeArgs() != "" {
		rec += " " + t.typeArgs()
	}
	for _, v := range ro {
		rec += " " + lname(v.Name())
	}
	recCall := rec + " fuel " + strings.Join(stNames, " ")
	inner := &sctx{monad: "loop", brk: ".done " + stTuple}
	// continue = post; recurse
	post := recCall
	if x.Post != nil {
		post = t.stmt(x.Post, inner, func() string { return recCall })
	}
	inner.cont = post
	body := t.stmts(x.Body.List, inner, post)
	if x.Cond != nil && t.needsSplit(x.Cond) {
		body = t.branch(x.Cond, inner, body, ".done "+stTuple)
	} else if x.Cond != nil {
		c, hs := t.newE(inner)
		cond := t.expr(x.Cond, c)
		body = t.wrapHoists(*hs, "if "+cond+" then\n"+body+"\nelse .done "+stTuple, inner)
	}
	recName := name
	var oracleSig string
	for _, o := range t.oracleList {
		if mentionsName(body, o.oracle) {
			recName += " " + o.oracle
			oracleSig += " (" + o.oracle + " : " + t.oracleType(o) + ")"
		}
	}
	body = strings.ReplaceAll(body, recHole, recName)
	recCall = strings.ReplaceAll(recCall, recHole, recName)
	var sig strings.Builder
	sig.WriteString("def " + name)
	if t.unit.Mode == "mops" {
		sig.WriteString(" {F : Type} [MOps F]")
	}
	if t.typeParams() != "" {
		sig.WriteString(" " + t.typeParams())
	}
	if strings.Contains(body, " ord") {
		t.fail(x, "a for loop whose body ranges over a map (the order oracle is not threaded through for loops)")
	}
	sig.WriteString(oracleSig)
	for _, v := range ro {
		sig.WriteString(" (" + lname(v.Name()) + " : " + t.varType(v) + ")")
	}
	sig.WriteString(" : Nat")
	for _, ty := range stTypes {
		sig.WriteString(" → " + ty)
	}
	sig.WriteString(" → Loop (" + stType + ") (" + t.retType() + ")\n")
	unders := strings.Repeat(", _", len(stNames))
	sig.WriteString("  | 0" + unders + " => .nofuel\n")
	sig.WriteString("  | fuel + 1, " + strings.Join(stNames, ", ") + " =>\n")
	sig.WriteString(indent(body, "    ") + "\n\n")
	t.aux.WriteString(sig.String())
	// in the enclosing function
	var res string
	if x.Init != nil {
		comb := "Loop.elim"
		if sc.monad == "loop" {
			comb = "Loop.elimL"
		}
		res = t.stmt(x.Init, sc, func() string {
			return comb + " (" + recCall + ") (fun " + stTuple + " =>\n" + k + ")"
		})
	} else {
		comb := "Loop.elim"
		if sc.monad == "loop" {
			comb = "Loop.elimL"
		}
		res = comb + " (" + recCall + ") (fun " + stTuple + " =>\n" + k + ")"
	}
	if noState {
		res = "let «u» : Unit := ()\n" + res
	}
	return res
}

func indent(s, pre string) string {
	lines := strings.Split(s, "\n")
	for i := range lines {
		lines[i] = pre + lines[i]
	}
	return strings.Join(lines, "\n")
}

// ---------------------------------------------------------------- functions, package analysis

func funcKey(fd *ast.FuncDecl) string {
	if fd.Recv != nil && len(fd.Recv.List) == 1 {
		ty := fd.Recv.List[0].Type
		if s, ok := ty.(*ast.StarExpr); ok {
			ty = s.X
		}
		if id, ok := ty.(*ast.Ident); ok {
			return id.Name + "." + fd.Name.Name
		}
	}
	return fd.Name.Name
}

// which parameters does the function write through?
func (t *tr) analyseMutation() {
	changed := true
	for changed {
		changed = false
		for _, fi := range t.funcs {
			ps := fi.allParams()
			idx := map[*types.Var]int{}
			for i, p := range ps {
				if _, ok := p.Type().(*types.Pointer); ok {
					idx[p] = i
				} else if nm, ok := p.Type().(*types.Named); ok {
					if _, isI := nm.Underlying().(*types.Interface); isI && nm.Obj().Pkg() != nil {
						if _, ok := t.unit.Ifaces[nm.Obj().Pkg().Name()+"."+nm.Obj().Name()]; ok {
							idx[p] = i // an interface value holding a pointer: its mutating methods change it
						}
					}
				}
			}
			mark := func(e ast.Expr) {
				id := baseIdent(e)
				if id == nil {
					return
				}
				if v, ok := t.info.Uses[id].(*types.Var); ok {
					if _, isP := idx[v]; isP && !fi.mutSet[v] {
						fi.mutSet[v] = true
						changed = true
					}
				}
			}
			ast.Inspect(fi.decl.Body, func(m ast.Node) bool {
				switch s := m.(type) {
				case *ast.AssignStmt:
					for _, l := range s.Lhs {
						switch l.(type) {
						case *ast.StarExpr, *ast.SelectorExpr, *ast.IndexExpr:
							mark(l)
						}
					}
				case *ast.IncDecStmt:
					switch s.X.(type) {
					case *ast.StarExpr, *ast.SelectorExpr, *ast.IndexExpr:
						mark(s.X)
					}
				case *ast.CallExpr:
					var obj types.Object
					var recv ast.Expr
					switch f := s.Fun.(type) {
					case *ast.Ident:
						obj = t.info.Uses[f]
					case *ast.SelectorExpr:
						obj = t.info.Uses[f.Sel]
						recv = f.X
					}
					if callee := t.byObj[obj]; callee != nil {
						var argExprs []ast.Expr
						if callee.recv != nil {
							argExprs = append(argExprs, recv)
						}
						argExprs = append(argExprs, s.Args...)
						cps := callee.allParams()
						for i, p := range cps {
							if callee.mutSet[p] && i < len(argExprs) {
								mark(argExprs[i])
							}
						}
					}
					if obj != nil && obj.Name() == "PutUint64" && len(s.Args) > 0 {
						if se, ok := s.Args[0].(*ast.SliceExpr); ok {
							mark(se.X)
						}
					}
					if obj != nil && (obj.Name() == "Float64s" || obj.Name() == "Ints") && obj.Pkg() != nil && obj.Pkg().Path() == "sort" && len(s.Args) > 0 {
						mark(s.Args[0])
					}
					if _, isB := obj.(*types.Builtin); isB && obj.Name() == "copy" && len(s.Args) == 2 {
						if se, ok := s.Args[0].(*ast.SliceExpr); ok {
							mark(se.X)
						} else {
							mark(s.Args[0])
						}
					}
					if _, isB := obj.(*types.Builtin); isB && obj.Name() == "delete" && len(s.Args) == 2 {
						mark(s.Args[0])
					}
				}
				return true
			})
		}
	}
	for _, fi := range t.funcs {
		fi.mutated = nil
		for i, p := range fi.allParams() {
			if fi.mutSet[p] {
				fi.mutated = append(fi.mutated, i)
			}
		}
	}
}

func (t *tr) analyseRes() {
	changed := true
	for changed {
		changed = false
		for _, fi := range t.funcs {
			if fi.res {
				continue
			}
			r := len(t.unit.Nullable[fi.key]) > 0 // dereferences a nullable pointer: checked
			ast.Inspect(fi.decl.Body, func(m ast.Node) bool {
				switch e := m.(type) {
				case *ast.IndexExpr:
					if _, isMap := t.typeOf(e.X).Underlying().(*types.Map); !isMap {
						r = true // (a map read or write never panics)
					}
				case *ast.ForStmt, *ast.RangeStmt, *ast.SliceExpr:
					r = true
				case *ast.CallExpr:
					if tv, ok := t.info.Types[e.Fun]; ok && tv.IsType() && len(e.Args) == 1 && t.unit.Mode != "mops" &&
						isInt(tv.Type) && isFloat(t.typeOf(e.Args[0])) {
						r = true // int(float): checked
					}
					var obj types.Object
					switch f := e.Fun.(type) {
					case *ast.Ident:
						obj = t.info.Uses[f]
					case *ast.SelectorExpr:
						obj = t.info.Uses[f.Sel]
					}
					if callee := t.byObj[obj]; callee != nil && callee.res {
						r = true
					}
					if sel, ok := e.Fun.(*ast.SelectorExpr); ok && sel.Sel.Name == "ForEach" && len(e.Args) == 1 {
						if _, isLit := e.Args[0].(*ast.FuncLit); isLit {
							r = true // a loop over the bins a store enumerates
						}
					}
					if obj != nil && obj.Pkg() != nil && obj.Pkg().Path() == "encoding/binary" {
						r = true
					}
				case *ast.Ident:
					if v, ok := t.info.Uses[e].(*types.Var); ok && t.varRes[v] {
						r = true
					}
				}
				return !r
			})
			if r {
				fi.res = true
				changed = true
			}
		}
	}
}

// which functions range over a map (directly or through a callee)?
func (t *tr) analyseOrd() {
	changed := true
	for changed {
		changed = false
		for _, fi := range t.funcs {
			if fi.ord {
				continue
			}
			o := false
			ast.Inspect(fi.decl.Body, func(m ast.Node) bool {
				switch e := m.(type) {
				case *ast.RangeStmt:
					if _, ok := t.typeOf(e.X).Underlying().(*types.Map); ok {
						o = true
					}
				case *ast.CallExpr:
					var obj types.Object
					switch f := e.Fun.(type) {
					case *ast.Ident:
						obj = t.info.Uses[f]
					case *ast.SelectorExpr:
						obj = t.info.Uses[f.Sel]
					}
					if callee := t.byObj[obj]; callee != nil && callee.ord {
						o = true
					}
				}
				return !o
			})
			if o {
				fi.ord = true
				changed = true
			}
		}
	}
}

func (t *tr) emitStructs() {
	names := []string{}
	scope := t.pkg.Scope()
	for _, n := range scope.Names() {
		if tn, ok := scope.Lookup(n).(*types.TypeName); ok {
			if _, ok := tn.Type().Underlying().(*types.Struct); ok {
				names = append(names, n)
			}
		}
	}
	sort.Strings(names)
	// only structs used by translated functions
	used := map[string]bool{}
	var use func(ty types.Type)
	use = func(ty types.Type) {
		switch u := ty.(type) {
		case *types.Pointer:
			use(u.Elem())
		case *types.Named:
			if st, ok := u.Underlying().(*types.Struct); ok && u.Obj().Pkg() == t.pkg && !used[u.Obj().Name()] {
				used[u.Obj().Name()] = true
				for i := 0; i < st.NumFields(); i++ {
					use(st.Field(i).Type())
				}
			}
		}
	}
	for _, fi := range t.funcs {
		for _, p := range fi.allParams() {
			use(p.Type())
		}
		for i := 0; i < fi.sig.Results().Len(); i++ {
			use(fi.sig.Results().At(i).Type())
		}
	}
	for v := range t.vars {
		use(v.Type())
	}
	// a struct after the structs of its fields
	var ordered []string
	done := map[string]bool{}
	var visit func(n string)
	visit = func(n string) {
		if done[n] || !used[n] {
			return
		}
		done[n] = true
		st := scope.Lookup(n).Type().Underlying().(*types.Struct)
		for i := 0; i < st.NumFields(); i++ {
			ft := st.Field(i).Type()
			if p, ok := ft.(*types.Pointer); ok {
				ft = p.Elem()
			}
			if nm, ok := ft.(*types.Named); ok && nm.Obj().Pkg() == t.pkg {
				if _, ok := nm.Underlying().(*types.Struct); ok {
					visit(nm.Obj().Name())
				}
			}
		}
		ordered = append(ordered, n)
	}
	for _, n := range names {
		visit(n)
	}
	for _, n := range ordered {
		st := scope.Lookup(n).Type().Underlying().(*types.Struct)
		if t.unit.Mode == "mops" {
			fmt.Fprintf(&t.out, "structure %s (F : Type) where\n", n)
		} else if t.unit.StructArgs != "" {
			fmt.Fprintf(&t.out, "structure %s (%s : Type) where\n", n, t.unit.StructArgs)
		} else {
			fmt.Fprintf(&t.out, "structure %s where\n", n)
		}
		for i := 0; i < st.NumFields(); i++ {
			fmt.Fprintf(&t.out, "  %s : %s\n", lname(st.Field(i).Name()), t.leanType(st.Field(i).Type()))
		}
		if t.unit.Mode != "mops" && t.unit.StructArgs == "" {
			t.out.WriteString("deriving DecidableEq, Repr, Inhabited\n")
		}
		t.out.WriteString("\n")
	}
}

func (t *tr) emitFunc(fi *funcInfo) {
	t.cur = fi
	t.nLoop = 0
	t.nTmp = 0
	t.aux.Reset()
	sc := &sctx{monad: "pure"}
	if fi.res {
		sc.monad = "res"
	}
	// implicit return at the end of a function without results
	var vals []string
	vals = append(vals, fi.retState...)
	for _, mi := range fi.mutated {
		vals = append(vals, lname(fi.allParams()[mi].Name()))
	}
	end := "()"
	if len(vals) > 0 {
		end = tuple(vals)
	}
	if fi.sig.Results().Len() > 0 {
		end = "default_unreachable"
	}
	body := t.stmts(fi.decl.Body.List, sc, t.ret(end, sc))
	if strings.Contains(body, "default_unreachable") {
		t.fail(fi.decl, "function %s may fall off its end", fi.key)
	}
	// named results that the body mentions: declared with their zero values
	for i := fi.sig.Results().Len() - 1; i >= 0; i-- {
		rv := fi.sig.Results().At(i)
		if rv.Name() == "" || rv.Name() == "_" {
			continue
		}
		used := false
		ast.Inspect(fi.decl.Body, func(m ast.Node) bool {
			if id, ok := m.(*ast.Ident); ok && t.info.Uses[id] == types.Object(rv) {
				used = true
			}
			return !used
		})
		if used {
			body = "let " + lname(rv.Name()) + " : " + t.leanType(rv.Type()) + " := " + t.zero(fi.decl, rv.Type()) + "\n" + body
		}
	}
	var sig strings.Builder
	p := t.fset.Position(fi.decl.Pos())
	fmt.Fprintf(&sig, "/-- `%s` (%s:%d) -/\n", fi.key, filepath.Base(p.Filename), p.Line)
	sig.WriteString("def " + fi.lean)
	if t.unit.Mode == "mops" {
		sig.WriteString(" {F : Type} [MOps F]")
	}
	if t.typeParams() != "" {
		sig.WriteString(" " + t.typeParams())
	}
	if fi.res {
		sig.WriteString(" (fuel : Nat)")
	}
	if fi.ord {
		sig.WriteString(" (ord : GoSem.MapOrder)")
	}
	for _, o := range t.oracleList {
		if fi.oracles[o.oracle] {
			sig.WriteString(" (" + o.oracle + " : " + t.oracleType(o) + ")")
		}
	}
	for _, p := range fi.allParams() {
		if fi.stateful && p == fi.sig.Params().At(fi.stIdx) {
			sig.WriteString(" («st» : σ)")
		}
		sig.WriteString(" (" + lname(p.Name()) + " : " + t.paramType(fi, p) + ")")
	}
	rt := t.retType()
	if fi.res {
		rt = "Res (" + rt + ")"
	}
	sig.WriteString(" : " + rt + " :=\n")
	t.out.WriteString(t.aux.String())
	t.out.WriteString(sig.String())
	t.out.WriteString(indent(body, "  ") + "\n\n")
}

type tolerantImporter struct {
	base types.Importer
}

func (ti tolerantImporter) Import(path string) (*types.Package, error) {
	return ti.ImportFrom(path, "", 0)
}

// ImportFrom resolves the import relative to the directory of the importing file (inside the
// repository's module), whatever the working directory of the translator is
func (ti tolerantImporter) ImportFrom(path, dir string, mode types.ImportMode) (*types.Package, error) {
	var p *types.Package
	var err error
	if from, ok := ti.base.(types.ImporterFrom); ok {
		p, err = from.ImportFrom(path, dir, mode)
	} else {
		p, err = ti.base.Import(path)
	}
	if err != nil {
		// a package we cannot load (generated protobuf code and its dependencies): an empty stand-in;
		// the functions that use it are not in the translated set
		name := path[strings.LastIndex(path, "/")+1:]
		fake := types.NewPackage(path, name)
		fake.MarkComplete()
		return fake, nil
	}
	return p, nil
}

func (t *tr) load(repo string) {
	// the source importer locates the main module (and through it the module cache) from this directory
	build.Default.Dir = repo
	t.fset = token.NewFileSet()
	dir := filepath.Join(repo, t.unit.Dir)
	pkgs, err := parser.ParseDir(t.fset, dir, func(fi os.FileInfo) bool {
		return !strings.HasSuffix(fi.Name(), "_test.go")
	}, parser.ParseComments)
	if err != nil {
		panic(trErr{"cannot parse " + dir + ": " + err.Error()})
	}
	for _, p := range pkgs {
		var names []string
		for n := range p.Files {
			names = append(names, n)
		}
		sort.Strings(names)
		for _, n := range names {
			f := p.Files[n]
			if t.unit.Desugar != nil && filepath.Base(n) == t.unit.Desugar.File {
				f = t.desugarFile(f, n)
			}
			t.files = append(t.files, f)
		}
	}
	t.info = &types.Info{Types: map[ast.Expr]types.TypeAndValue{}, Defs: map[*ast.Ident]types.Object{},
		Uses: map[*ast.Ident]types.Object{}, Selections: map[*ast.SelectorExpr]*types.Selection{}}
	conf := types.Config{Importer: tolerantImporter{importer.ForCompiler(t.fset, "source", nil)}, Error: func(error) {}}
	t.pkg, _ = conf.Check(t.unit.Dir, t.fset, t.files, t.info)
	if t.pkg == nil {
		panic(trErr{"cannot type-check " + dir})
	}
}

func translateUnit(repo string, u transUnit) (text string, errMsg string) {
	t := &tr{unit: u, funcs: map[string]*funcInfo{}, byObj: map[types.Object]*funcInfo{},
		vars: map[types.Object]string{}, varRes: map[types.Object]bool{}}
	defer func() {
		if r := recover(); r != nil {
			if e, ok := r.(trErr); ok {
				errMsg = e.msg
				return
			}
			panic(r)
		}
	}()
	t.load(repo)
	decls := map[string]*ast.FuncDecl{}
	for _, f := range t.files {
		for _, d := range f.Decls {
			if fd, ok := d.(*ast.FuncDecl); ok && fd.Body != nil {
				decls[funcKey(fd)] = fd
			}
		}
	}
	own := map[string]bool{}
	for _, key := range u.Funcs {
		own[key] = true
	}
	// the chain of bases, the root first; a key listed by several units of the chain belongs to the nearest one
	var chain []*transUnit
	for b := u.Base; b != nil; b = b.Base {
		chain = append([]*transUnit{b}, chain...)
	}
	priorOf := map[string]*transUnit{}
	var allKeys []string
	for _, b := range chain {
		for _, key := range b.Funcs {
			if !own[key] {
				if priorOf[key] == nil {
					allKeys = append(allKeys, key)
				}
				priorOf[key] = b
			}
		}
	}
	allKeys = append(allKeys, u.Funcs...)
	for _, key := range allKeys {
		fd := decls[key]
		if fd == nil {
			panic(trErr{"function " + key + " not found in " + u.Dir})
		}
		obj := t.info.Defs[fd.Name].(*types.Func)
		sig := obj.Type().(*types.Signature)
		lean := key
		if key == "min" || key == "max" {
			lean = "go" + strings.ToUpper(key[:1]) + key[1:] // not to shadow Lean's own min / max
		}
		fi := &funcInfo{key: key, lean: lean, decl: fd, sig: sig, recv: sig.Recv(), mutSet: map[*types.Var]bool{}}
		stateful := u.Stateful
		if !own[key] {
			fi.prior = true
			fi.lean = priorOf[key].NS + "." + lean
			stateful = nil
			if priorOf[key].Base != nil {
				stateful = priorOf[key].Stateful // a base that is itself an extension regenerated the function in this form
			}
		}
		if pn, ok := stateful[key]; ok {
			fi.stIdx = -1
			for i := 0; i < sig.Params().Len(); i++ {
				if sig.Params().At(i).Name() == pn {
					fi.stIdx = i
				}
			}
			if fi.stIdx < 0 {
				panic(trErr{"function " + key + " has no parameter " + pn})
			}
			fi.stateful = true
			fi.res = true
			fi.stVar = types.NewVar(fd.Pos(), t.pkg, "«st»", sigmaType)
			fi.retState, fi.retStateTy = []string{"«st»"}, []string{"σ"}
		}
		t.funcs[key] = fi
		t.byObj[obj] = fi
	}
	// function literals passed as call arguments inside the translated functions: lifted to definitions of
	// their own (no captured variables); function-typed parameters: callable values
	t.lits = map[*ast.FuncLit]*funcInfo{}
	t.litsOf = map[string][]string{}
	for _, key := range allKeys {
		fi := t.funcs[key]
		n := 0
		ast.Inspect(fi.decl.Body, func(m ast.Node) bool {
			call, ok := m.(*ast.CallExpr)
			if !ok || fi.prior {
				return true
			}
			for ai, a := range call.Args {
				lit, ok := a.(*ast.FuncLit)
				if !ok {
					continue
				}
				var cobj types.Object
				switch f := call.Fun.(type) {
				case *ast.Ident:
					cobj = t.info.Uses[f]
				case *ast.SelectorExpr:
					cobj = t.info.Uses[f.Sel]
				}
				if cf := t.byObj[cobj]; cf != nil && cf.stateful && cf.stIdx == ai {
					continue // translated in state-passing form at the call
				}
				if id, ok := call.Fun.(*ast.SelectorExpr); ok {
					if pk, ok := id.X.(*ast.Ident); ok {
						if pn, ok := t.info.Uses[pk].(*types.PkgName); ok && pn.Imported().Path() == "sort" {
							continue // sort.Slice comparison: handled by pattern
						}
					}
				}
				// a literal that captures variables is not lifted (translating a call that passes it then fails)
				captures := false
				ast.Inspect(lit.Body, func(q ast.Node) bool {
					if id, ok := q.(*ast.Ident); ok {
						if v, ok := t.info.Uses[id].(*types.Var); ok && !v.IsField() && v.Pkg() == t.pkg &&
							v.Parent() != t.pkg.Scope() && !(v.Pos() >= lit.Pos() && v.Pos() < lit.End()) {
							captures = true
						}
					}
					return !captures
				})
				if captures {
					continue
				}
				n++
				lk := fmt.Sprintf("%s.lit%d", key, n)
				sig := t.info.Types[lit].Type.(*types.Signature)
				lfi := &funcInfo{key: lk, lean: lk, decl: &ast.FuncDecl{Name: ast.NewIdent(lk), Type: lit.Type, Body: lit.Body},
					sig: sig, mutSet: map[*types.Var]bool{}, res: true}
				t.funcs[lk] = lfi
				t.lits[lit] = lfi
				t.litsOf[key] = append(t.litsOf[key], lk)
			}
			return true
		})
		// function-typed parameters
		for i := 0; i < fi.sig.Params().Len(); i++ {
			pv := fi.sig.Params().At(i)
			if psig, ok := pv.Type().Underlying().(*types.Signature); ok {
				pfi := &funcInfo{key: pv.Name(), lean: lname(pv.Name()), sig: psig, mutSet: map[*types.Var]bool{}, res: true, noFuel: true, extern: true}
				pfi.stCallback = fi.stateful && fi.stIdx == i
				for j := 0; j < psig.Params().Len(); j++ {
					if _, ok := psig.Params().At(j).Type().(*types.Pointer); ok {
						pfi.mutSet[psig.Params().At(j)] = true
						pfi.mutated = append(pfi.mutated, j)
					}
				}
				t.byObj[pv] = pfi
			}
		}
	}
	// package variables: declared first so that functions can refer to them; those initialised by a
	// fallible function are Res values
	type pv struct {
		obj  *types.Var
		init ast.Expr
	}
	pvs := map[string]pv{}
	for _, f := range t.files {
		for _, d := range f.Decls {
			gd, ok := d.(*ast.GenDecl)
			if !ok || gd.Tok != token.VAR {
				continue
			}
			for _, s := range gd.Specs {
				vs := s.(*ast.ValueSpec)
				for i, n := range vs.Names {
					if i < len(vs.Values) {
						if v, ok := t.info.Defs[n].(*types.Var); ok {
							pvs[n.Name] = pv{v, vs.Values[i]}
						}
					}
				}
			}
		}
	}
	var allVars []string
	for _, b := range chain {
		for _, name := range b.Vars {
			p, ok := pvs[name]
			if !ok {
				panic(trErr{"package variable " + name + " not found in " + u.Dir})
			}
			t.vars[p.obj] = b.NS + "." + lname(name)
			allVars = append(allVars, name)
		}
	}
	for _, name := range u.Vars {
		p, ok := pvs[name]
		if !ok {
			panic(trErr{"package variable " + name + " not found in " + u.Dir})
		}
		t.vars[p.obj] = lname(name)
		allVars = append(allVars, name)
	}
	t.registerExterns()
	t.registerOracles()
	t.analyseMutation()
	for _, lfi := range t.lits {
		// a literal has the calling convention of its function type: every pointer parameter is returned
		lfi.mutated = nil
		for j := 0; j < lfi.sig.Params().Len(); j++ {
			if _, ok := lfi.sig.Params().At(j).Type().(*types.Pointer); ok {
				lfi.mutSet[lfi.sig.Params().At(j)] = true
				lfi.mutated = append(lfi.mutated, j)
			}
		}
	}
	t.analyseOrd()
	t.analyseOracles()
	// fallibility: a variable initialised by a call to a fallible function is fallible; iterate
	for i := 0; i < 4; i++ {
		t.analyseRes()
		for _, name := range allVars {
			p := pvs[name]
			if call, ok := p.init.(*ast.CallExpr); ok {
				if id, ok := call.Fun.(*ast.Ident); ok {
					if fi := t.byObj[t.info.Uses[id]]; fi != nil && fi.res {
						t.varRes[p.obj] = true
					}
				}
			}
		}
	}
	fmt.Fprintf(&t.out, "/- GENERATED by `hx trans` from %s/*.go under the repository — DO NOT EDIT.\n", u.Dir)
	t.out.WriteString("   Regenerated on every run of a check; DDS/Proofs/Gen*.lean proves these definitions equal to the\n")
	t.out.WriteString("   hand-written model, so the model's theorems are re-checked against what the source says now. -/\n")
	if u.Mode == "mops" {
		t.out.WriteString("import DDS.Model.GoSem\nimport DDS.Model.Mapping\n")
	} else {
		t.out.WriteString("import DDS.Model.GoSem\n")
	}
	for _, im := range u.Imports {
		t.out.WriteString("import " + im + "\n")
	}
	if u.Base != nil {
		t.out.WriteString("import DDS.Generated." + u.Base.File + "\n")
	}
	t.out.WriteString("\n")
	t.out.WriteString("set_option linter.unusedVariables false\n\n")
	fmt.Fprintf(&t.out, "namespace %s\nopen DDS DDS.GoSem\n\n", u.NS)
	if u.Base == nil {
		t.emitStructs()
	}
	t.emitSums()
	// emit variables and functions in dependency order: the listed order of Funcs, with each variable
	// emitted right after the functions its initialiser needs (variables are listed in order)
	emittedVar := map[string]bool{}
	emittedFn := map[string]bool{}
	var emitVar func(name string)
	var emitFn func(key string)
	deps := func(n ast.Node) (fns []string, vars []string) {
		ast.Inspect(n, func(m ast.Node) bool {
			if id, ok := m.(*ast.Ident); ok {
				obj := t.info.Uses[id]
				if fi := t.byObj[obj]; fi != nil {
					fns = append(fns, fi.key)
				}
				if v, ok := obj.(*types.Var); ok {
					if _, ok := t.vars[v]; ok {
						vars = append(vars, v.Name())
					}
				}
			}
			return true
		})
		return
	}
	ownVar := map[string]bool{}
	for _, v := range u.Vars {
		ownVar[v] = true
	}
	emitVar = func(name string) {
		if emittedVar[name] || !ownVar[name] {
			return
		}
		emittedVar[name] = true
		p := pvs[name]
		fns, vars := deps(p.init)
		for _, v := range vars {
			emitVar(v)
		}
		for _, f := range fns {
			if t.funcs[f] != nil && !t.funcs[f].prior {
				emitFn(f)
			}
		}
		t.cur = &funcInfo{key: name, lean: name}
		c := &ectx{}
		var val string
		ty := t.leanType(p.obj.Type())
		if t.varRes[p.obj] {
			call := p.init.(*ast.CallExpr)
			fi := t.byObj[t.info.Uses[call.Fun.(*ast.Ident)]]
			if len(call.Args) != 0 {
				panic(trErr{"initialiser of " + name + " takes arguments"})
			}
			val = fi.lean + " GoSem.initFuel"
			ty = "Res (" + ty + ")"
		} else {
			val = t.expr(p.init, c)
		}
		pos := t.fset.Position(p.obj.Pos())
		fmt.Fprintf(&t.out, "/-- `var %s` (%s:%d) -/\ndef %s : %s := %s\n\n", name, filepath.Base(pos.Filename), pos.Line, lname(name), ty, val)
	}
	emitFn = func(key string) {
		if emittedFn[key] {
			return
		}
		emittedFn[key] = true
		fi := t.funcs[key]
		fns, vars := deps(fi.decl.Body)
		for _, v := range vars {
			emitVar(v)
		}
		for _, f := range fns {
			if f != key && t.funcs[f] != nil && !t.funcs[f].prior {
				emitFn(f)
			}
		}
		for _, lk := range t.litsOf[key] {
			emitFn(lk)
		}
		t.emitFunc(fi)
	}
	for _, v := range u.Vars {
		emitVar(v)
	}
	for _, key := range u.Funcs {
		emitFn(key)
	}
	fmt.Fprintf(&t.out, "end %s\n", u.NS)
	return t.out.String(), ""
}

// genTrans writes one Lean file per unit (only when its content changes, so that `lake build` stays
// a no-op otherwise). A unit that cannot be translated gets a file holding the diagnosis as a
// compile error, so that the dependent proofs fail and the check reports the broken tie.
func genTrans(repo, outDir string) int {
	bad := 0
	only := os.Getenv("HX_TRANS_ONLY") // development aid: comma-separated file names of the units to regenerate
	for _, u := range transUnits {
		if only != "" && !strings.Contains(","+only+",", ","+u.File+",") {
			continue
		}
		text, errMsg := translateUnit(repo, u)
		if u.Desugar != nil && lastDesugared != "" && u.Base != nil && u.Base.Base != nil {
			lastDesugared = "" // the desugared text kept next to the output is that of the unit and its direct extensions
		}
		if u.Desugar != nil && lastDesugared != "" {
			dp := filepath.Join(outDir, u.Desugar.File[:len(u.Desugar.File)-len(".go")]+".desugared.go.txt")
			if old, _ := os.ReadFile(dp); string(old) != lastDesugared {
				os.WriteFile(dp, []byte(lastDesugared), 0o644)
			}
			lastDesugared = ""
		}
		if errMsg != "" {
			bad++
			fmt.Fprintf(os.Stderr, "trans: %s: %s\n", u.File, errMsg)
			text = fmt.Sprintf("/- GENERATED by `hx trans` — TRANSLATION FAILED -/\n#eval (throw (IO.userError %q) : IO Unit)\nexample : False := by trans_failed\n", "hx trans: "+u.File+": "+errMsg)
		}
		path := filepath.Join(outDir, u.File+".lean")
		old, _ := os.ReadFile(path)
		if string(old) != text {
			if err := os.WriteFile(path, []byte(text), 0o644); err != nil {
				fmt.Fprintln(os.Stderr, "trans:", err)
				return 3
			}
		}
	}
	if bad > 0 {
		return 4
	}
	return 0
}

// ---------------------------------------------------------------- short-circuit conditions with fallible operands

// would the expression need a hoisted (fallible) step: an index, a slice bound, a fallible call?
func (t *tr) needsHoist(e ast.Expr) bool {
	saved := t.nTmp
	defer func() { t.nTmp = saved }()
	hs := []hoist{}
	ok := true
	func() {
		defer func() {
			if r := recover(); r != nil {
				if _, is := r.(trErr); !is {
					panic(r)
				}
				ok = false
			}
		}()
		t.expr(e, &ectx{hoists: &hs})
	}()
	return ok && len(hs) > 0
}

func unparen(e ast.Expr) ast.Expr {
	for {
		p, ok := e.(*ast.ParenExpr)
		if !ok {
			return e
		}
		e = p.X
	}
}

// a condition `A && B` / `A || B` whose right operand contains a fallible step
func (t *tr) needsSplit(e ast.Expr) bool {
	be, ok := unparen(e).(*ast.BinaryExpr)
	if !ok || (be.Op != token.LAND && be.Op != token.LOR) {
		return false
	}
	return t.needsHoist(be.Y) || t.needsSplit(be.X) || t.needsSplit(be.Y)
}

// `if cond then th else el` with Go's evaluation order for && and ||: the right operand (and its index checks) is
// evaluated only when the left one does not decide
func (t *tr) branch(cond ast.Expr, sc *sctx, th, el string) string {
	cond = unparen(cond)
	if be, ok := cond.(*ast.BinaryExpr); ok && t.needsSplit(cond) {
		if be.Op == token.LAND {
			return t.branch(be.X, sc, t.branch(be.Y, sc, th, el), el)
		}
		return t.branch(be.X, sc, th, t.branch(be.Y, sc, th, el))
	}
	c, hs := t.newE(sc)
	cs := t.expr(cond, c)
	return t.wrapHoists(*hs, "if "+cs+" then\n"+th+"\nelse\n"+el, sc)
}

// ---------------------------------------------------------------- closures that only read

// `func(a T) R { return e }` passed as an argument, where e only READS variables of the enclosing function: a Lean
// lambda with the calling convention of function values (fallible).  The captured variables must not be assigned
// after the literal (Go captures the variable, Lean the value) and the literal must not stand in a loop.
func (t *tr) lambda(x *ast.FuncLit) string {
	if len(x.Body.List) != 1 {
		t.fail(x, "function literal that captures variables (only `func(…) T { return e }` is translated)")
	}
	ret, ok := x.Body.List[0].(*ast.ReturnStmt)
	if !ok || len(ret.Results) != 1 {
		t.fail(x, "function literal that captures variables (only `func(…) T { return e }` is translated)")
	}
	captured := map[*types.Var]bool{}
	ast.Inspect(ret, func(q ast.Node) bool {
		if id, ok := q.(*ast.Ident); ok {
			if v, ok := t.info.Uses[id].(*types.Var); ok && !v.IsField() && v.Pkg() == t.pkg &&
				v.Parent() != t.pkg.Scope() && !(v.Pos() >= x.Pos() && v.Pos() < x.End()) {
				captured[v] = true
			}
		}
		return true
	})
	if t.cur != nil && t.cur.decl != nil {
		ast.Inspect(t.cur.decl.Body, func(q ast.Node) bool {
			switch s := q.(type) {
			case *ast.ForStmt, *ast.RangeStmt:
				if q.Pos() <= x.Pos() && x.End() <= q.End() {
					t.fail(x, "capturing function literal inside a loop")
				}
			case *ast.AssignStmt, *ast.IncDecStmt, *ast.CallExpr:
				if s.Pos() > x.End() {
					for _, v := range t.assignedOuter([]ast.Node{s}, func(types.Object) bool { return false }) {
						if captured[v] {
							t.fail(s, "variable %s is assigned after a function literal captured it", v.Name())
						}
					}
				}
			}
			return true
		})
	}
	var names []string
	for _, f := range x.Type.Params.List {
		if _, isP := t.typeOf(f.Type).(*types.Pointer); isP {
			t.fail(x, "capturing function literal with a pointer parameter")
		}
		for _, n := range f.Names {
			names = append(names, lname(n.Name))
		}
	}
	if len(names) == 0 {
		t.fail(x, "capturing function literal without parameters")
	}
	return "(fun " + strings.Join(names, " ") + " => .ok " + t.expr(ret.Results[0], &ectx{}) + ")"
}

// ---------------------------------------------------------------- oracles of a desugared source

// An oracle is a body-less function that the desugaring pre-pass declares (hidden state of the Go runtime such as the
// growth of `append`, or code outside the subset that the unit leaves to the proof side).  Every translated function
// that calls one, directly or through a callee, takes it as a parameter — threaded exactly like the map order `ord`.
type oracleSpec struct {
	Go   string // name of the declared function
	Lean string // name of the Lean parameter
	Decl string // the Go declaration added to the desugared file
	Res  bool   // fallible (returns Res)
	Mut  []int  // parameters it writes through (returned first)
}

func mentionsName(body, name string) bool {
	for i := 0; i+len(name) <= len(body); {
		j := strings.Index(body[i:], name)
		if j < 0 {
			return false
		}
		j += i
		before, after := byte(' '), byte(' ')
		if j > 0 {
			before = body[j-1]
		}
		if j+len(name) < len(body) {
			after = body[j+len(name)]
		}
		if (before == ' ' || before == '(' || before == '\n') && (after == ' ' || after == ')' || after == '\n') {
			return true
		}
		i = j + len(name)
	}
	return false
}

func (t *tr) oracleType(o *funcInfo) string {
	var ps, rs []string
	for i := 0; i < o.sig.Params().Len(); i++ {
		ps = append(ps, t.leanType(o.sig.Params().At(i).Type()))
	}
	for _, mi := range o.mutated {
		rs = append(rs, t.leanType(o.sig.Params().At(mi).Type()))
	}
	for i := 0; i < o.sig.Results().Len(); i++ {
		rs = append(rs, t.leanType(o.sig.Results().At(i).Type()))
	}
	r := "Unit"
	if len(rs) > 0 {
		r = strings.Join(rs, " × ")
	}
	if o.res {
		r = "Res (" + r + ")"
	}
	return strings.Join(append(ps, r), " → ")
}

func (t *tr) registerOracles() {
	if t.unit.Desugar == nil {
		return
	}
	for _, os := range t.unit.Desugar.Oracles {
		fo, ok := t.pkg.Scope().Lookup(os.Go).(*types.Func)
		if !ok {
			panic(trErr{"oracle " + os.Go + " is not declared by the desugared source"})
		}
		sig := fo.Type().(*types.Signature)
		fi := &funcInfo{key: os.Go, lean: os.Lean, sig: sig, mutSet: map[*types.Var]bool{}, extern: true, res: os.Res,
			noFuel: true, oracle: os.Lean}
		for _, i := range os.Mut {
			fi.mutSet[sig.Params().At(i)] = true
			fi.mutated = append(fi.mutated, i)
		}
		t.byObj[fo] = fi
		t.oracleList = append(t.oracleList, fi)
	}
}

// which functions need which oracles (directly or through a callee)?
func (t *tr) analyseOracles() {
	if len(t.oracleList) == 0 {
		return
	}
	changed := true
	for changed {
		changed = false
		for _, fi := range t.funcs {
			ast.Inspect(fi.decl.Body, func(m ast.Node) bool {
				e, ok := m.(*ast.CallExpr)
				if !ok {
					return true
				}
				var obj types.Object
				switch f := e.Fun.(type) {
				case *ast.Ident:
					obj = t.info.Uses[f]
				case *ast.SelectorExpr:
					obj = t.info.Uses[f.Sel]
				}
				callee := t.byObj[obj]
				if callee == nil {
					return true
				}
				need := map[string]bool{}
				if callee.oracle != "" {
					need[callee.oracle] = true
				}
				for o := range callee.oracles {
					need[o] = true
				}
				for o := range need {
					if !fi.oracles[o] {
						if fi.oracles == nil {
							fi.oracles = map[string]bool{}
						}
						fi.oracles[o] = true
						changed = true
					}
				}
				return true
			})
		}
	}
}

// ---------------------------------------------------------------- Go -> Go desugaring (aliasing, cap)

// The value-semantics translation above is only right for alias-free Go.  The buffered-paginated store hands out
// slices that alias its page table and asks the runtime for `cap(buffer)`.  This pre-pass rewrites ONE file of the
// package, before type-checking, into Go that has the same behaviour and no such aliasing; the result is printed,
// re-parsed (fresh positions) and type-checked in place of the original, and written next to the generated Lean
// file for inspection.  The rules R1-R4 only add redundant write-backs / a shadow field (identities on real Go); the
// entries of Replace are the unit's specialisation assumptions and oracle cuts, stated in the unit.
//
//	R1  p := &T[e] … *p …          =>  p := T[e] … p … ; `*p = v` => `p = v; T[e] = p`
//	    (rest of the block: no calls but builtins, no assignment to the operands of e or to T)
//	R2  x := s.page(A, B)           =>  xPIdx := A; x := s.page(xPIdx, B); xSlot := xPIdx - s.minPageIndex
//	    x := s.pages[E]             =>  xSlot := E; x := s.pages[xSlot]
//	    s.page(A, B)[L] op= v       =>  { pg0 := s.page(A, B); pg0[L] op= v }   (then as above)
//	    every `x[i] = v`, `x[i] op= v`, `x[i]++` is followed by `s.pages[xSlot] = x`; nothing is added when x is
//	    never written.  Rest of the block: no assignment to s.pages / s.minPageIndex, no call of a method of s that
//	    writes to s, x not reassigned.
//	R3  for _, p := range s.pages { … p[i] op= v … }  =>  for pIdx, p := range s.pages { … p[i] op= v; s.pages[pIdx] = p … }
//	R4  the capacity of s.buffer is the shadow field s.bufferCap: literal `buffer: make([]int, 0, n)` => `bufferCap: n`,
//	    `buffer: make([]int, n)` / a local made so and only copied into => cap = len; `s.buffer = append(s.buffer, v)`
//	    is preceded by `if len(s.buffer) == s.bufferCap { s.bufferCap = growCap(s.bufferCap, len(s.buffer)+1) }`;
//	    `s.buffer = s.buffer[:n]` keeps it; `cap(s.buffer)` => `s.bufferCap`; any other assignment to s.buffer is an error.
type desugarSpec struct {
	File, Recv              string
	Table, Base, PageMethod string // s.pages, s.minPageIndex, s.page
	CapOf, CapField         string // s.buffer, s.bufferCap
	GrowOracle              string
	Oracles                 []oracleSpec
	Replace                 map[string][][2]string // function key -> (expression or statement text, replacement)
}

var lastDesugared string

type desugarer struct {
	spec     *desugarSpec
	mutating map[string]bool
	recv     string // receiver name of the current function
	fn       string
}

func nodeString(n ast.Node) string {
	var b strings.Builder
	printer.Fprint(&b, token.NewFileSet(), n)
	return b.String()
}

func (d *desugarer) fail(format string, a ...interface{}) {
	panic(trErr{"desugar " + d.fn + ": " + fmt.Sprintf(format, a...)})
}

// positions of a parsed snippet mean nothing in the file's position table (the printer would break lines by them)
func clearPos(n ast.Node) {
	ast.Inspect(n, func(m ast.Node) bool {
		if m == nil {
			return true
		}
		v := reflect.ValueOf(m)
		if v.Kind() == reflect.Ptr && !v.IsNil() && v.Elem().Kind() == reflect.Struct {
			e := v.Elem()
			for i := 0; i < e.NumField(); i++ {
				if f := e.Field(i); f.Type() == reflect.TypeOf(token.NoPos) && f.CanSet() {
					f.SetInt(0)
				}
			}
		}
		return true
	})
}

func (d *desugarer) parseExpr(s string) ast.Expr {
	e, err := parser.ParseExpr(s)
	if err != nil {
		d.fail("internal: cannot parse %q", s)
	}
	clearPos(e)
	return e
}

func (d *desugarer) parseStmts(s string) []ast.Stmt {
	f, err := parser.ParseFile(token.NewFileSet(), "", "package p\nfunc _() {\n"+s+"\n}", 0)
	if err != nil {
		d.fail("internal: cannot parse %q", s)
	}
	body := f.Decls[0].(*ast.FuncDecl).Body
	clearPos(body)
	return body.List
}

func mapLists(n ast.Node, f func([]ast.Stmt) []ast.Stmt) {
	ast.Inspect(n, func(m ast.Node) bool {
		switch b := m.(type) {
		case *ast.BlockStmt:
			b.List = f(b.List)
		case *ast.CaseClause:
			b.Body = f(b.Body)
		}
		return true
	})
}

func rwExprs(es []ast.Expr, f func(ast.Expr) ast.Expr) {
	for i := range es {
		es[i] = rwExpr(es[i], f)
	}
}

// bottom-up rewriting of the expressions of a statement / expression tree
func rwExpr(e ast.Expr, f func(ast.Expr) ast.Expr) ast.Expr {
	if e == nil {
		return nil
	}
	switch x := e.(type) {
	case *ast.ParenExpr:
		x.X = rwExpr(x.X, f)
	case *ast.SelectorExpr:
		x.X = rwExpr(x.X, f)
	case *ast.IndexExpr:
		x.X = rwExpr(x.X, f)
		x.Index = rwExpr(x.Index, f)
	case *ast.SliceExpr:
		x.X, x.Low, x.High, x.Max = rwExpr(x.X, f), rwExpr(x.Low, f), rwExpr(x.High, f), rwExpr(x.Max, f)
	case *ast.StarExpr:
		x.X = rwExpr(x.X, f)
	case *ast.UnaryExpr:
		x.X = rwExpr(x.X, f)
	case *ast.BinaryExpr:
		x.X, x.Y = rwExpr(x.X, f), rwExpr(x.Y, f)
	case *ast.CallExpr:
		x.Fun = rwExpr(x.Fun, f)
		rwExprs(x.Args, f)
	case *ast.KeyValueExpr:
		x.Value = rwExpr(x.Value, f)
	case *ast.CompositeLit:
		rwExprs(x.Elts, f)
	case *ast.TypeAssertExpr:
		x.X = rwExpr(x.X, f)
	case *ast.FuncLit:
		rwStmt(x.Body, f)
	}
	return f(e)
}

func rwStmt(s ast.Stmt, f func(ast.Expr) ast.Expr) {
	switch x := s.(type) {
	case nil:
	case *ast.BlockStmt:
		if x != nil {
			for _, st := range x.List {
				rwStmt(st, f)
			}
		}
	case *ast.ExprStmt:
		x.X = rwExpr(x.X, f)
	case *ast.AssignStmt:
		rwExprs(x.Lhs, f)
		rwExprs(x.Rhs, f)
	case *ast.IncDecStmt:
		x.X = rwExpr(x.X, f)
	case *ast.ReturnStmt:
		rwExprs(x.Results, f)
	case *ast.IfStmt:
		rwStmt(x.Init, f)
		x.Cond = rwExpr(x.Cond, f)
		rwStmt(x.Body, f)
		rwStmt(x.Else, f)
	case *ast.ForStmt:
		rwStmt(x.Init, f)
		x.Cond = rwExpr(x.Cond, f)
		rwStmt(x.Post, f)
		rwStmt(x.Body, f)
	case *ast.RangeStmt:
		x.X = rwExpr(x.X, f)
		rwStmt(x.Body, f)
	case *ast.SwitchStmt:
		rwStmt(x.Init, f)
		x.Tag = rwExpr(x.Tag, f)
		rwStmt(x.Body, f)
	case *ast.CaseClause:
		rwExprs(x.List, f)
		for _, st := range x.Body {
			rwStmt(st, f)
		}
	case *ast.DeclStmt:
		if gd, ok := x.Decl.(*ast.GenDecl); ok {
			for _, sp := range gd.Specs {
				if vs, ok := sp.(*ast.ValueSpec); ok {
					rwExprs(vs.Values, f)
				}
			}
		}
	case *ast.BranchStmt, *ast.EmptyStmt:
	default:
		panic(trErr{fmt.Sprintf("desugar: statement %T is outside the subset", s)})
	}
}

func isIdent(e ast.Expr, name string) bool {
	id, ok := e.(*ast.Ident)
	return ok && id.Name == name
}

// does the statement write an element through the slice variable x?
func writesThrough(st ast.Stmt, x string) bool {
	elem := func(e ast.Expr) bool {
		ix, ok := e.(*ast.IndexExpr)
		return ok && isIdent(ix.X, x)
	}
	switch s := st.(type) {
	case *ast.AssignStmt:
		for _, l := range s.Lhs {
			if elem(l) {
				return true
			}
		}
	case *ast.IncDecStmt:
		return elem(s.X)
	}
	return false
}

func anyWrite(list []ast.Stmt, x string) bool {
	found := false
	for _, st := range list {
		ast.Inspect(st, func(m ast.Node) bool {
			if s, ok := m.(ast.Stmt); ok && writesThrough(s, x) {
				found = true
			}
			return !found
		})
	}
	return found
}

func (d *desugarer) insertWriteBacks(list []ast.Stmt, x, wb string) []ast.Stmt {
	fix := func(l []ast.Stmt) []ast.Stmt {
		var out []ast.Stmt
		for _, st := range l {
			out = append(out, st)
			if writesThrough(st, x) {
				out = append(out, d.parseStmts(wb)...)
			}
		}
		return out
	}
	wrap := &ast.BlockStmt{List: list}
	mapLists(wrap, fix)
	ast.Inspect(wrap, func(m ast.Node) bool {
		if fs, ok := m.(*ast.ForStmt); ok && fs.Post != nil && writesThrough(fs.Post, x) {
			d.fail("write through %s in the post statement of a for loop", x)
		}
		return true
	})
	return wrap.List
}

// the page table must not change, other than through x, while x (a slice aliasing one of its entries) is written
func (d *desugarer) checkTableStable(list []ast.Stmt, x string) {
	table, base := d.recv+"."+d.spec.Table, d.recv+"."+d.spec.Base
	lhs := func(e ast.Expr) {
		s := nodeString(e)
		if strings.HasPrefix(s, table) || s == base {
			d.fail("%s is assigned while the slice %s aliases the page table", s, x)
		}
		if isIdent(e, x) {
			d.fail("the slice %s that aliases the page table is reassigned", x)
		}
	}
	for _, st := range list {
		ast.Inspect(st, func(m ast.Node) bool {
			switch s := m.(type) {
			case *ast.AssignStmt:
				if s.Tok != token.DEFINE {
					for _, l := range s.Lhs {
						lhs(l)
					}
				}
			case *ast.IncDecStmt:
				lhs(s.X)
			case *ast.UnaryExpr:
				if s.Op == token.AND && strings.HasPrefix(nodeString(s.X), d.recv+".") {
					d.fail("address of %s taken while the slice %s aliases the page table", nodeString(s.X), x)
				}
			case *ast.CallExpr:
				if sel, ok := s.Fun.(*ast.SelectorExpr); ok && isIdent(sel.X, d.recv) && d.mutating[sel.Sel.Name] {
					d.fail("call of %s.%s (writes to the store) while the slice %s aliases the page table", d.recv, sel.Sel.Name, x)
				}
				if id, ok := s.Fun.(*ast.Ident); ok {
					for _, o := range d.spec.Oracles {
						if o.Go == id.Name && len(o.Mut) > 0 {
							d.fail("oracle call %s while the slice %s aliases the page table", id.Name, x)
						}
					}
				}
			}
			return true
		})
	}
}

// methods of the receiver type that write to the store (syntactic fixpoint; conservative)
func (d *desugarer) mutatingMethods(f *ast.File) map[string]bool {
	mut := map[string]bool{}
	type meth struct {
		name, recv string
		body       *ast.BlockStmt
	}
	var ms []meth
	for _, decl := range f.Decls {
		fd, ok := decl.(*ast.FuncDecl)
		if !ok || fd.Body == nil || fd.Recv == nil || !strings.HasPrefix(funcKey(fd), d.spec.Recv+".") || len(fd.Recv.List[0].Names) == 0 {
			continue
		}
		ms = append(ms, meth{fd.Name.Name, fd.Recv.List[0].Names[0].Name, fd.Body})
	}
	changed := true
	for changed {
		changed = false
		for _, m := range ms {
			if mut[m.name] {
				continue
			}
			w := false
			viaRecv := func(e ast.Expr) bool {
				if _, plain := e.(*ast.Ident); plain {
					return false
				}
				id := baseIdent(e)
				if id == nil {
					if se, ok := e.(*ast.SliceExpr); ok {
						id = baseIdent(se.X)
					}
				}
				return id != nil && id.Name == m.recv
			}
			ast.Inspect(m.body, func(n ast.Node) bool {
				switch s := n.(type) {
				case *ast.AssignStmt:
					for _, l := range s.Lhs {
						if viaRecv(l) {
							w = true
						}
					}
				case *ast.IncDecStmt:
					if viaRecv(s.X) {
						w = true
					}
				case *ast.UnaryExpr:
					if s.Op == token.AND && viaRecv(s.X) {
						w = true
					}
				case *ast.CallExpr:
					if sel, ok := s.Fun.(*ast.SelectorExpr); ok {
						if isIdent(sel.X, m.recv) && mut[sel.Sel.Name] {
							w = true
						}
						if isIdent(sel.X, "sort") && len(s.Args) > 0 && viaRecv(s.Args[0]) {
							w = true
						}
					}
					if isIdent(s.Fun, "copy") && len(s.Args) > 0 && viaRecv(s.Args[0]) {
						w = true
					}
				}
				return !w
			})
			if w {
				mut[m.name] = true
				changed = true
			}
		}
	}
	return mut
}

func (t *tr) desugarFile(f *ast.File, filename string) *ast.File {
	spec := t.unit.Desugar
	d := &desugarer{spec: spec}
	d.mutating = d.mutatingMethods(f)
	want := map[string]bool{}
	for _, k := range t.unit.Funcs {
		want[k] = true
	}
	for b := t.unit.Base; b != nil; b = b.Base {
		for _, k := range b.Funcs {
			want[k] = true
		}
	}
	f.Comments, f.Doc = nil, nil
	ast.Inspect(f, func(m ast.Node) bool {
		switch x := m.(type) {
		case *ast.GenDecl:
			x.Doc = nil
		case *ast.FuncDecl:
			x.Doc = nil
		case *ast.Field:
			x.Doc, x.Comment = nil, nil
		case *ast.ValueSpec:
			x.Doc, x.Comment = nil, nil
		case *ast.TypeSpec:
			x.Doc, x.Comment = nil, nil
		}
		return true
	})
	for _, decl := range f.Decls {
		switch x := decl.(type) {
		case *ast.GenDecl:
			for _, sp := range x.Specs {
				ts, ok := sp.(*ast.TypeSpec)
				if !ok || ts.Name.Name != spec.Recv {
					continue
				}
				st, ok := ts.Type.(*ast.StructType)
				if !ok {
					panic(trErr{"desugar: " + spec.Recv + " is not a struct"})
				}
				var fields []*ast.Field
				done := false
				for _, fl := range st.Fields.List {
					fields = append(fields, fl)
					for _, n := range fl.Names {
						if n.Name == spec.CapOf {
							fields = append(fields, &ast.Field{Names: []*ast.Ident{ast.NewIdent(spec.CapField)}, Type: ast.NewIdent("int")})
							done = true
						}
					}
				}
				if !done {
					panic(trErr{"desugar: field " + spec.CapOf + " not found"})
				}
				st.Fields.List = fields
			}
		case *ast.FuncDecl:
			if x.Body != nil && want[funcKey(x)] {
				d.function(x)
			}
		}
	}
	var b strings.Builder
	b.WriteString("// GENERATED by `hx trans` from " + t.unit.Dir + "/" + spec.File + " — the alias-free Go that CodePaginated.lean is translated from.\n")
	b.WriteString("// Rules R1-R4 (harness/trans.go, \"Go -> Go desugaring\") only add redundant write-backs and the shadow field\n")
	b.WriteString("// " + spec.CapField + "; the body-less functions at the end are oracles (parameters of the generated Lean functions).\n")
	b.WriteString("// Only the functions of the unit are rewritten; the others are as in the source (and are not translated).\n\n")
	if err := printer.Fprint(&b, t.fset, f); err != nil {
		panic(trErr{"desugar: cannot print: " + err.Error()})
	}
	b.WriteString("\n")
	for _, o := range spec.Oracles {
		b.WriteString("\n" + o.Decl + "\n")
	}
	text := b.String()
	lastDesugared = text
	nf, err := parser.ParseFile(t.fset, strings.TrimSuffix(filename, ".go")+".desugared.go", text, 0)
	if err != nil {
		panic(trErr{"desugar: the rewritten file does not parse: " + err.Error()})
	}
	return nf
}

func (d *desugarer) function(fd *ast.FuncDecl) {
	d.fn = funcKey(fd)
	d.recv = ""
	if fd.Recv != nil && len(fd.Recv.List) == 1 && len(fd.Recv.List[0].Names) == 1 {
		d.recv = fd.Recv.List[0].Names[0].Name
	}
	// the unit's cuts: expressions / expression statements replaced by their text
	for _, r := range d.spec.Replace[d.fn] {
		n := 0
		mapLists(fd.Body, func(l []ast.Stmt) []ast.Stmt {
			var out []ast.Stmt
			for _, st := range l {
				if es, ok := st.(*ast.ExprStmt); ok && strings.HasPrefix(nodeString(es.X), r[0]) && strings.HasSuffix(r[0], "(") {
					out = append(out, d.parseStmts(r[1])...)
					n++
					continue
				}
				out = append(out, st)
			}
			return out
		})
		rwStmt(fd.Body, func(e ast.Expr) ast.Expr {
			if _, isCall := e.(*ast.CallExpr); isCall || !strings.HasSuffix(r[0], "(") {
				if nodeString(e) == r[0] {
					n++
					return d.parseExpr(r[1])
				}
			}
			return e
		})
		if n != 1 {
			d.fail("replacement of %q applies %d times (expected once)", r[0], n)
		}
	}
	d.r4(fd)
	if d.recv == "" {
		return
	}
	d.r1(fd)
	d.r2direct(fd)
	d.r2var(fd)
	d.r3(fd)
}

func (d *desugarer) r4(fd *ast.FuncDecl) {
	sp := d.spec
	if d.recv != "" {
		buf, capf := d.recv+"."+sp.CapOf, d.recv+"."+sp.CapField
		rwStmt(fd.Body, func(e ast.Expr) ast.Expr {
			if c, ok := e.(*ast.CallExpr); ok && isIdent(c.Fun, "cap") {
				if nodeString(c) != "cap("+buf+")" {
					d.fail("cap() of something else than %s", buf)
				}
				return d.parseExpr(capf)
			}
			return e
		})
		mapLists(fd.Body, func(l []ast.Stmt) []ast.Stmt {
			var out []ast.Stmt
			for _, st := range l {
				as, ok := st.(*ast.AssignStmt)
				touches := false
				if ok {
					for _, lh := range as.Lhs {
						if se, ok := lh.(*ast.SelectorExpr); ok && se.Sel.Name == sp.CapOf {
							touches = true
						}
					}
				}
				if !touches {
					out = append(out, st)
					continue
				}
				if len(as.Lhs) != 1 || len(as.Rhs) != 1 || as.Tok != token.ASSIGN || nodeString(as.Lhs[0]) != buf {
					d.fail("unsupported assignment to the field %s", sp.CapOf)
				}
				switch r := as.Rhs[0].(type) {
				case *ast.CallExpr:
					if isIdent(r.Fun, "append") && len(r.Args) == 2 && !r.Ellipsis.IsValid() && nodeString(r.Args[0]) == buf {
						out = append(out, d.parseStmts(fmt.Sprintf("if len(%[1]s) == %[2]s {\n%[2]s = %[3]s(%[2]s, len(%[1]s)+1)\n}", buf, capf, sp.GrowOracle))...)
						out = append(out, st)
						continue
					}
				case *ast.SliceExpr:
					if nodeString(r.X) == buf && r.Low == nil && r.High != nil && !r.Slice3 {
						out = append(out, st) // re-slicing keeps the capacity
						continue
					}
				}
				d.fail("unsupported assignment to %s: %s", buf, nodeString(as))
			}
			return out
		})
	}
	// composite literals of the store
	ast.Inspect(fd.Body, func(n ast.Node) bool {
		cl, ok := n.(*ast.CompositeLit)
		if !ok || !isIdent(cl.Type, sp.Recv) {
			return true
		}
		for _, el := range cl.Elts {
			kv, ok := el.(*ast.KeyValueExpr)
			if !ok {
				d.fail("positional composite literal of %s", sp.Recv)
			}
			if !isIdent(kv.Key, sp.CapOf) {
				continue
			}
			capExpr := ""
			mk := func(e ast.Expr) string {
				c, ok := e.(*ast.CallExpr)
				if !ok || !isIdent(c.Fun, "make") {
					return ""
				}
				switch len(c.Args) {
				case 2:
					return nodeString(c.Args[1])
				case 3:
					return nodeString(c.Args[2])
				}
				return ""
			}
			if capExpr = mk(kv.Value); capExpr == "" {
				id, ok := kv.Value.(*ast.Ident)
				if !ok {
					d.fail("cannot tell the capacity of %s in a literal", nodeString(kv.Value))
				}
				made := false
				ast.Inspect(fd.Body, func(m ast.Node) bool {
					as, ok := m.(*ast.AssignStmt)
					if !ok {
						return true
					}
					for i, l := range as.Lhs {
						if bi := baseIdent(l); bi != nil && bi.Name == id.Name {
							c, isMake := ast.Expr(nil), false
							if as.Tok == token.DEFINE && len(as.Lhs) == len(as.Rhs) && isIdent(l, id.Name) {
								c = as.Rhs[i]
								if call, ok := c.(*ast.CallExpr); ok && isIdent(call.Fun, "make") && len(call.Args) == 2 {
									isMake = true
								}
							}
							if !isMake || made {
								d.fail("cannot tell the capacity of %s in a literal (assigned otherwise than by one make([]T, n))", id.Name)
							}
							made = true
						}
					}
					return true
				})
				if !made {
					d.fail("cannot tell the capacity of %s in a literal", id.Name)
				}
				capExpr = "len(" + id.Name + ")"
			}
			cl.Elts = append(cl.Elts, &ast.KeyValueExpr{Key: ast.NewIdent(sp.CapField), Value: d.parseExpr(capExpr)})
			break
		}
		return true
	})
}

func (d *desugarer) r1(fd *ast.FuncDecl) {
	var fix func(l []ast.Stmt) []ast.Stmt
	fix = func(l []ast.Stmt) []ast.Stmt {
		for i, st := range l {
			as, ok := st.(*ast.AssignStmt)
			if !ok || as.Tok != token.DEFINE || len(as.Lhs) != 1 || len(as.Rhs) != 1 {
				continue
			}
			u, ok := as.Rhs[0].(*ast.UnaryExpr)
			if !ok || u.Op != token.AND {
				continue
			}
			target, ok := u.X.(*ast.IndexExpr)
			p, isId := as.Lhs[0].(*ast.Ident)
			if !ok || !isId {
				d.fail("address of %s taken", nodeString(u.X))
			}
			rest := &ast.BlockStmt{List: append([]ast.Stmt{}, l[i+1:]...)}
			atoms := map[string]bool{nodeString(target.X): true}
			ast.Inspect(target.Index, func(m ast.Node) bool {
				switch e := m.(type) {
				case *ast.SelectorExpr:
					atoms[nodeString(e)] = true
					return false
				case *ast.Ident:
					atoms[e.Name] = true
				}
				return true
			})
			nId, nStar := 0, 0
			ast.Inspect(rest, func(m ast.Node) bool {
				switch e := m.(type) {
				case *ast.Ident:
					if e.Name == p.Name {
						nId++
					}
				case *ast.StarExpr:
					if isIdent(e.X, p.Name) {
						nStar++
					}
				case *ast.CallExpr:
					id, ok := e.Fun.(*ast.Ident)
					if !ok || !(id.Name == "len" || id.Name == "append" || id.Name == "make" || id.Name == "cap" || id.Name == "copy") {
						d.fail("R1: call of %s while %s points into %s", nodeString(e.Fun), p.Name, nodeString(target.X))
					}
				case *ast.AssignStmt:
					for _, lh := range e.Lhs {
						s := nodeString(lh)
						if atoms[s] || strings.HasPrefix(s, nodeString(target.X)+"[") {
							d.fail("R1: %s is assigned while %s points into %s", s, p.Name, nodeString(target.X))
						}
					}
				case *ast.IncDecStmt:
					if atoms[nodeString(e.X)] {
						d.fail("R1: %s is assigned while %s points into it", nodeString(e.X), p.Name)
					}
				case *ast.ForStmt, *ast.RangeStmt:
					d.fail("R1: loop while %s points into %s", p.Name, nodeString(target.X))
				}
				return true
			})
			if nId != nStar {
				d.fail("R1: the pointer %s is used otherwise than as *%s", p.Name, p.Name)
			}
			tgt := nodeString(target)
			as.Rhs[0] = target
			mapLists(rest, func(ll []ast.Stmt) []ast.Stmt {
				var out []ast.Stmt
				for _, s := range ll {
					out = append(out, s)
					if a2, ok := s.(*ast.AssignStmt); ok && len(a2.Lhs) == 1 {
						if se, ok := a2.Lhs[0].(*ast.StarExpr); ok && isIdent(se.X, p.Name) {
							if a2.Tok != token.ASSIGN {
								d.fail("R1: unsupported assignment through *%s", p.Name)
							}
							out = append(out, d.parseStmts(tgt+" = "+p.Name)...)
						}
					}
				}
				return out
			})
			rwStmt(rest, func(e ast.Expr) ast.Expr {
				if se, ok := e.(*ast.StarExpr); ok && isIdent(se.X, p.Name) {
					return ast.NewIdent(p.Name)
				}
				return e
			})
			return append(append([]ast.Stmt{}, l[:i+1]...), fix(rest.List)...)
		}
		return l
	}
	mapLists(fd.Body, fix)
}

func (d *desugarer) pageCall(e ast.Expr) *ast.CallExpr {
	c, ok := e.(*ast.CallExpr)
	if !ok {
		return nil
	}
	sel, ok := c.Fun.(*ast.SelectorExpr)
	if !ok || !isIdent(sel.X, d.recv) || sel.Sel.Name != d.spec.PageMethod || len(c.Args) != 2 {
		return nil
	}
	return c
}

func (d *desugarer) r2direct(fd *ast.FuncDecl) {
	n := 0
	mapLists(fd.Body, func(l []ast.Stmt) []ast.Stmt {
		var out []ast.Stmt
		for _, st := range l {
			var target *ast.IndexExpr
			var text string
			switch s := st.(type) {
			case *ast.AssignStmt:
				if len(s.Lhs) == 1 && len(s.Rhs) == 1 {
					if ix, ok := s.Lhs[0].(*ast.IndexExpr); ok && d.pageCall(ix.X) != nil {
						target = ix
						text = fmt.Sprintf("pg%d[%s] %s %s", n, nodeString(ix.Index), s.Tok.String(), nodeString(s.Rhs[0]))
					}
				}
			case *ast.IncDecStmt:
				if ix, ok := s.X.(*ast.IndexExpr); ok && d.pageCall(ix.X) != nil {
					target = ix
					text = fmt.Sprintf("pg%d[%s]%s", n, nodeString(ix.Index), s.Tok.String())
				}
			}
			if target == nil {
				out = append(out, st)
				continue
			}
			out = append(out, d.parseStmts(fmt.Sprintf("{\npg%d := %s\n%s\n}", n, nodeString(target.X), text))...)
			n++
		}
		return out
	})
}

func (d *desugarer) r2var(fd *ast.FuncDecl) {
	sp := d.spec
	var fix func(l []ast.Stmt) []ast.Stmt
	fix = func(l []ast.Stmt) []ast.Stmt {
		for i, st := range l {
			as, ok := st.(*ast.AssignStmt)
			if !ok || len(as.Lhs) != 1 || len(as.Rhs) != 1 {
				continue
			}
			x, isId := as.Lhs[0].(*ast.Ident)
			call := d.pageCall(as.Rhs[0])
			var slotOf ast.Expr
			if ix, ok := as.Rhs[0].(*ast.IndexExpr); ok && nodeString(ix.X) == d.recv+"."+sp.Table {
				slotOf = ix.Index
			}
			if call == nil && slotOf == nil {
				continue
			}
			if !isId || as.Tok != token.DEFINE {
				d.fail("R2: an entry of the page table is assigned to something else than a new variable")
			}
			rest := append([]ast.Stmt{}, l[i+1:]...)
			if !anyWrite(rest, x.Name) {
				continue
			}
			d.checkTableStable(rest, x.Name)
			var defs string
			if call != nil {
				switch call.Args[1].(type) {
				case *ast.Ident, *ast.BasicLit:
				default:
					d.fail("R2: the second argument of %s must be a variable or a literal", sp.PageMethod)
				}
				defs = fmt.Sprintf("%[1]sPIdx := %[2]s\n%[1]s := %[3]s.%[4]s(%[1]sPIdx, %[5]s)\n%[1]sSlot := %[1]sPIdx - %[3]s.%[6]s",
					x.Name, nodeString(call.Args[0]), d.recv, sp.PageMethod, nodeString(call.Args[1]), sp.Base)
			} else {
				defs = fmt.Sprintf("%[1]sSlot := %[2]s\n%[1]s := %[3]s.%[4]s[%[1]sSlot]", x.Name, nodeString(slotOf), d.recv, sp.Table)
			}
			rest = d.insertWriteBacks(rest, x.Name, fmt.Sprintf("%s.%s[%sSlot] = %s", d.recv, sp.Table, x.Name, x.Name))
			out := append([]ast.Stmt{}, l[:i]...)
			out = append(out, d.parseStmts(defs)...)
			return append(out, fix(rest)...)
		}
		return l
	}
	mapLists(fd.Body, fix)
}

func (d *desugarer) r3(fd *ast.FuncDecl) {
	sp := d.spec
	ast.Inspect(fd.Body, func(n ast.Node) bool {
		rs, ok := n.(*ast.RangeStmt)
		if !ok || nodeString(rs.X) != d.recv+"."+sp.Table {
			return true
		}
		p, ok := rs.Value.(*ast.Ident)
		if !ok || p.Name == "_" || !anyWrite(rs.Body.List, p.Name) {
			return true
		}
		d.checkTableStable(rs.Body.List, p.Name)
		key := p.Name + "Idx"
		if k, ok := rs.Key.(*ast.Ident); ok && k.Name != "_" {
			key = k.Name
		} else {
			rs.Key = ast.NewIdent(key)
		}
		rs.Body.List = d.insertWriteBacks(rs.Body.List, p.Name, fmt.Sprintf("%s.%s[%s] = %s", d.recv, sp.Table, key, p.Name))
		return true
	})
}

func mergeExterns(ms ...map[string]externFn) map[string]externFn {
	out := map[string]externFn{}
	for _, m := range ms {
		for k, v := range m {
			out[k] = v
		}
	}
	return out
}

// the buffered-paginated store, through the desugaring above.  `MergeWith` is translated for an argument that is a
// *BufferedPaginatedStore distinct from the receiver (`o == s` is false); its fallback for stores of another page
// length (a closure that writes to the receiver) and the `default:` case of the decoder (the generic
// `store.DecodeAndMergeWith` on the receiver as a `Store`) are oracles.  `Bins` (goroutine) and the protobuf
// methods are not translated.
var paginatedUnit = transUnit{Dir: "ddsketch/store", File: "CodePaginated", NS: "DDS.Gen.Paginated", Mode: "rat", JoinIfs: true,
	Imports:     denseUnit.Imports,
	ExternTypes: denseUnit.ExternTypes, ExternVars: denseUnit.ExternVars,
	ExternFuncs: mergeExterns(denseUnit.ExternFuncs, storeDecodeUnit.ExternFuncs),
	Specialise:  map[string]map[string]string{"BufferedPaginatedStore.MergeWith": {"other": "BufferedPaginatedStore"}},
	Desugar: &desugarSpec{File: "buffered_paginated.go", Recv: "BufferedPaginatedStore",
		Table: "pages", Base: "minPageIndex", PageMethod: "page", CapOf: "buffer", CapField: "bufferCap", GrowOracle: "growCap",
		Oracles: []oracleSpec{
			{Go: "growCap", Lean: "grow", Decl: "// the capacity `append` gives a full slice of capacity oldCap that must hold `needed` elements (runtime growth policy)\nfunc growCap(oldCap, needed int) int"},
			{Go: "mergeFallback", Lean: "mergeFallback", Res: true, Mut: []int{0},
				Decl: "// MergeWith, page lengths differ: other.ForEach(func(index int, count float64) (stop bool) { s.AddWithCount(index, count); return false })\nfunc mergeFallback(s *BufferedPaginatedStore, other *BufferedPaginatedStore)"},
			{Go: "decodeFallback", Lean: "decodeFallback", Res: true, Mut: []int{0, 1},
				Decl: "// DecodeAndMergeWith, default case: the generic DecodeAndMergeWith(s, b, encodingMode) of store.go on s as a Store\nfunc decodeFallback(s *BufferedPaginatedStore, b *[]byte, encodingMode enc.SubFlag) error"},
		},
		Replace: map[string][][2]string{
			"BufferedPaginatedStore.MergeWith": {
				{"o == s", "false"}, // the unit's assumption: the argument is another object than the receiver
				{"other.ForEach(", "mergeFallback(s, o)"},
			},
			"BufferedPaginatedStore.DecodeAndMergeWith": {{"DecodeAndMergeWith(s, b, encodingMode)", "decodeFallback(s, b, encodingMode)"}},
		}},
	Vars: []string{"errUndefinedMinIndex", "errUndefinedMaxIndex"},
	Funcs: []string{
		"min", "max", "Bin.Index", "Bin.Count",
		"NewBufferedPaginatedStore", "BufferedPaginatedStore.pageIndex", "BufferedPaginatedStore.lineIndex",
		"BufferedPaginatedStore.index", "BufferedPaginatedStore.newPagesLen", "BufferedPaginatedStore.page",
		"BufferedPaginatedStore.sortBuffer", "BufferedPaginatedStore.compact", "BufferedPaginatedStore.Add",
		"BufferedPaginatedStore.AddWithCount", "BufferedPaginatedStore.AddBin", "BufferedPaginatedStore.IsEmpty",
		"BufferedPaginatedStore.TotalCount", "BufferedPaginatedStore.MinIndex", "BufferedPaginatedStore.MaxIndex",
		"BufferedPaginatedStore.Copy", "BufferedPaginatedStore.Clear", "BufferedPaginatedStore.Reweight",
		"BufferedPaginatedStore.minIndexWithCumulCount", "BufferedPaginatedStore.KeyAtRank",
		"BufferedPaginatedStore.ForEach", "BufferedPaginatedStore.Encode", "BufferedPaginatedStore.MergeWith",
		"BufferedPaginatedStore.DecodeAndMergeWith",
	}}

func init() {
	transUnits = append(transUnits, paginatedUnit)
}

// ---------------------------------------------------------------- units that extend the ones above

func extend(base *transUnit, file, ns string, funcs ...string) transUnit {
	u := *base
	u.Base, u.File, u.NS, u.Funcs, u.Vars = base, file, ns, funcs, nil
	return u
}

// the iteration methods in state-passing form (the callback threads a state σ), and the thin wrappers of the dense stores
var denseIterUnit = func() transUnit {
	u := extend(&denseUnit, "CodeDenseIter", "DDS.Gen.DenseIter", "NewBin", "DenseStore.ForEach")
	u.Stateful = map[string]string{"DenseStore.ForEach": "f"}
	return u
}()

var sparseIterUnit = func() transUnit {
	u := extend(&sparseUnit, "CodeSparseIter", "DDS.Gen.SparseIter", "SparseStore.ForEach")
	u.Stateful = map[string]string{"SparseStore.ForEach": "f"}
	return u
}()

var paginatedIterUnit = func() transUnit {
	u := extend(&paginatedUnit, "CodePaginatedIter", "DDS.Gen.PaginatedIter", "BufferedPaginatedStore.ForEach")
	u.Stateful = map[string]string{"BufferedPaginatedStore.ForEach": "f"}
	return u
}()

// the sketch level: iteration in state-passing form, the constructors / decoders that take a store provider, accessors
var sketchIterUnit = func() transUnit {
	u := extend(&sketchUnit, "CodeSketchIter", "DDS.Gen.SketchIter",
		"DDSketch.ForEach", "DDSketch.GetSum", "DDSketchWithExactSummaryStatistics.ForEach",
		"DDSketch.GetPositiveValueStore", "DDSketch.GetNegativeValueStore",
		"DDSketchWithExactSummaryStatistics.GetPositiveValueStore", "DDSketchWithExactSummaryStatistics.GetNegativeValueStore",
		"NewDDSketchFromStoreProvider", "NewDDSketchWithExactSummaryStatistics", "DecodeDDSketch",
		"DDSketchWithExactSummaryStatistics.ChangeMapping",
		"DDSketch.decodeAndMergeWith", "DDSketchWithExactSummaryStatistics.DecodeAndMergeWith",
		"DecodeDDSketchWithExactSummaryStatistics")
	u.ExternFuncs = mergeExterns(sketchUnit.ExternFuncs, map[string]externFn{
		"encoding.DecodeFloat64LE": {Lean: "DDS.Gen.Encoding.DecodeFloat64LE", Res: true, MutParams: []int{0}}})
	u.Stateful = map[string]string{"DDSketch.ForEach": "f", "DDSketchWithExactSummaryStatistics.ForEach": "f",
		"DDSketch.decodeAndMergeWith": "fallbackDecode"}
	return u
}()

// `T.DecodeAndMergeWith` of the dense, collapsing and sparse stores: the generic decoder of CodeStoreDecode applied to
// the receiver as a `Store`, i.e. through whatever StoreI instance the receiver's type is given
var denseDecodeUnit = func() transUnit {
	u := extend(&denseUnit, "CodeDenseDecode", "DDS.Gen.DenseDecode", "DenseStore.DecodeAndMergeWith",
		"CollapsingLowestDenseStore.DecodeAndMergeWith", "CollapsingHighestDenseStore.DecodeAndMergeWith")
	u.TypeParams = "[StoreI DDS.Gen.Dense.DenseStore] [StoreI DDS.Gen.Dense.CollapsingLowestDenseStore] [StoreI DDS.Gen.Dense.CollapsingHighestDenseStore]"
	u.Imports = append(append([]string{}, denseUnit.Imports...), "DDS.Generated.CodeStoreDecode")
	u.ExternFuncs = mergeExterns(denseUnit.ExternFuncs, map[string]externFn{
		"store.DecodeAndMergeWith": {Lean: "DDS.Gen.StoreDecode.DecodeAndMergeWith", Res: true, MutParams: []int{0, 1}}})
	return u
}()

// the sparse store's `MergeWith` (any store: a loop over the bins the argument enumerates) and `DecodeAndMergeWith`
var sparseMergeUnit = func() transUnit {
	u := extend(&sparseUnit, "CodeSparseMerge", "DDS.Gen.SparseMerge", "SparseStore.MergeWith")
	u.TypeParams = "{S : Type} [StoreI S]"
	u.TypeArgs = "(S := S)"
	u.Imports = append(append([]string{}, sparseUnit.Imports...), "DDS.Model.GoIface")
	u.Ifaces = map[string]ifaceSpec{"store.Store": storeDecodeUnit.Ifaces["store.Store"]}
	return u
}()

var sparseDecodeUnit = func() transUnit {
	u := extend(&sparseUnit, "CodeSparseDecode", "DDS.Gen.SparseDecode", "SparseStore.DecodeAndMergeWith")
	u.TypeParams = "[StoreI DDS.Gen.Sparse.SparseStore]"
	u.Imports = append(append([]string{}, sparseUnit.Imports...), "DDS.Generated.CodeStoreDecode")
	u.ExternFuncs = mergeExterns(sparseUnit.ExternFuncs, map[string]externFn{
		"store.DecodeAndMergeWith": {Lean: "DDS.Gen.StoreDecode.DecodeAndMergeWith", Res: true, MutParams: []int{0, 1}}})
	return u
}()

var mappingCtorUnit = extend(&transUnits[3], "CodeMappingCtor", "DDS.Gen.MappingCtor", "NewDefaultMapping")

func init() {
	transUnits = append(transUnits, denseIterUnit, sparseIterUnit, paginatedIterUnit, sketchIterUnit, denseDecodeUnit, sparseMergeUnit, sparseDecodeUnit, mappingCtorUnit)
}

// ---------------------------------------------------------------- the protobuf conversions
//
// The message structs of ddsketch/pb/sketchpb are mirrored by hand in DDS/Model/GoPb.lean (data fields only, the
// float type a parameter); the units below declare them as ExternTypes.  A `map[int32]float64` is a GoSem.GoMap keyed
// by the value of the int32; a sub-message pointer is an `Option`.

func mergeTypes(ms ...map[string]string) map[string]string {
	out := map[string]string{}
	for _, m := range ms {
		for k, v := range m {
			out[k] = v
		}
	}
	return out
}

func pbTypes(fl string) map[string]string {
	return map[string]string{
		"sketchpb.Store":                      "(GoPb.Store " + fl + ")",
		"sketchpb.IndexMapping":               "(GoPb.IndexMapping " + fl + ")",
		"sketchpb.DDSketch":                   "(GoPb.DDSketch " + fl + ")",
		"sketchpb.IndexMapping_Interpolation": "GoPb.IndexMapping_Interpolation",
	}
}

func withPb(u transUnit, fl string) transUnit {
	u.ExternTypes = mergeTypes(u.ExternTypes, pbTypes(fl))
	u.Imports = append(append([]string{}, u.Imports...), "DDS.Model.GoPb")
	return u
}

// `ToProto` of the three kinds of store (exact weights).  The collapsing stores have no method of their own (the
// embedded DenseStore's is promoted).  The paginated store fills the map inside the callback of its `ForEach`: the
// state-passing `ForEach` of CodePaginatedIter, the state being the map.
var denseProtoUnit = withPb(extend(&denseUnit, "CodeDenseProto", "DDS.Gen.DenseProto", "DenseStore.ToProto"), "Rat")

var sparseProtoUnit = withPb(extend(&sparseUnit, "CodeSparseProto", "DDS.Gen.SparseProto", "SparseStore.ToProto"), "Rat")

var paginatedProtoUnit = withPb(extend(&paginatedIterUnit, "CodePaginatedProto", "DDS.Gen.PaginatedProto",
	"BufferedPaginatedStore.ToProto", "BufferedPaginatedStore.MergeWithProto"), "Rat")

// `store.MergeWithProto` over any store (the bins given sparsely, in the order the oracle picks, then the bins given
// contiguously)
var storeProtoUnit = withPb(extend(&storeDecodeUnit, "CodeStoreProto", "DDS.Gen.StoreProto", "MergeWithProto"), "F64")

func init() {
	transUnits = append(transUnits, denseProtoUnit, sparseProtoUnit, paginatedProtoUnit, storeProtoUnit)
}

// `store.FromProto`: a new dense store, filled by the generic `MergeWithProto` of CodeStoreProto through whatever
// StoreI instance the dense store is given (the message is the float64 one that function takes)
var denseFromProtoUnit = func() transUnit {
	u := extend(&denseUnit, "CodeDenseFromProto", "DDS.Gen.DenseFromProto", "FromProto")
	u.TypeParams = "[StoreI DDS.Gen.Dense.DenseStore]"
	u.ExternTypes = mergeTypes(denseUnit.ExternTypes, pbTypes("F64"))
	u.Imports = append(append([]string{}, denseUnit.Imports...), "DDS.Model.GoPb", "DDS.Generated.CodeStoreProto")
	u.ExternFuncs = mergeExterns(denseUnit.ExternFuncs, map[string]externFn{
		"store.MergeWithProto": {Lean: "DDS.Gen.StoreProto.MergeWithProto", Res: true, Ord: true, MutParams: []int{0}}})
	return u
}()

// the three mappings' `ToProto` (generic arithmetic: the fields are copied)
var mappingProtoUnit = withPb(extend(&transUnits[3], "CodeMappingProto", "DDS.Gen.MappingProto",
	"LogarithmicMapping.ToProto", "LinearlyInterpolatedMapping.ToProto", "CubicallyInterpolatedMapping.ToProto"), "F")

func init() {
	transUnits = append(transUnits, denseFromProtoUnit, mappingProtoUnit)
}

// `mapping.FromProto`: a nil message is an error; the result is the interface, a sum over the three kinds of mapping
var mappingFromProtoUnit = func() transUnit {
	u := withPb(extend(&transUnits[3], "CodeMappingFromProto", "DDS.Gen.MappingFromProto", "FromProto"), "F")
	u.Nullable = map[string][]string{"FromProto": {"m"}}
	u.IfaceSum = map[string][]string{"IndexMapping": {"LogarithmicMapping", "LinearlyInterpolatedMapping", "CubicallyInterpolatedMapping"}}
	return u
}()

func init() {
	transUnits = append(transUnits, mappingFromProtoUnit)
}

// the sketch level: `DDSketch.ToProto` and `FromProtoWithStoreProvider`, generic over the two interfaces.  The protobuf
// methods of the interfaces live in the second classes `GoPb.MapPbI`, `GoPb.StorePbI` (extra binders of this unit: the
// classes MapI / StoreI and their instances are untouched); `mapping.FromProto` is the class method
// `MapPbI.FromProto` (as `MapI.Decode` stands for `mapping.Decode`), `store.MergeWithProto` is the regenerated generic
// function of CodeStoreProto.  `ddsketch.FromProto` (the same with `store.DenseStoreConstructor`) is the instance at
// the dense store and is not a generic function.
var sketchProtoUnit = func() transUnit {
	u := withPb(extend(&sketchUnit, "CodeSketchProto", "DDS.Gen.SketchProto", "DDSketch.ToProto", "FromProtoWithStoreProvider"), "F64")
	u.TypeParams = sketchUnit.TypeParams + " [GoPb.MapPbI M] [GoPb.StorePbI S]"
	u.Imports = append(u.Imports, "DDS.Generated.CodeStoreProto")
	mi, si := sketchUnit.Ifaces["mapping.IndexMapping"], sketchUnit.Ifaces["store.Store"]
	mi.MethodClass = map[string]string{"ToProto": "GoPb.MapPbI"}
	si.MethodClass = map[string]string{"ToProto": "GoPb.StorePbI"}
	u.Ifaces = map[string]ifaceSpec{"mapping.IndexMapping": mi, "store.Store": si}
	u.ExternFuncs = mergeExterns(sketchUnit.ExternFuncs, map[string]externFn{
		"store.MergeWithProto": {Lean: "DDS.Gen.StoreProto.MergeWithProto", Res: true, Ord: true, MutParams: []int{0}},
		"mapping.FromProto":    {Lean: "GoPb.MapPbI.FromProto (M := M)", OptParams: []int{0}}})
	return u
}()

func init() {
	transUnits = append(transUnits, sketchProtoUnit)
}
