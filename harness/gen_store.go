package main

import (
	"fmt"
	"math/big"
)

var binLimits = []int{1, 2, 3, 4, 7, 8, 31, 32, 33, 64, 128, 1024, 2048}

type gstore struct {
	kind  string
	n     int
	truth *Truth
}

type storeGen struct {
	g       *Gen
	prop    string
	h       map[int]*gstore
	shape   int
	base    int
	cur     int
	dir     int
	spanCap int
	nHint   int
}

func (sg *storeGen) pickKind(receiver bool) (string, int) {
	r := sg.g.rng
	pickN := func() int {
		if r.Bool(75) {
			return binLimits[r.Intn(len(binLimits))]
		}
		return r.Range(1, 2048)
	}
	switch sg.prop {
	case "C05":
		if receiver || r.Bool(40) {
			if r.Bool(50) {
				return "low", pickN()
			}
			return "high", pickN()
		}
		return []string{"dense", "sparse", "pag"}[r.Intn(3)], 0
	case "C04":
		if !receiver && r.Bool(12) {
			if r.Bool(50) {
				return "low", pickN()
			}
			return "high", pickN()
		}
		return []string{"dense", "sparse", "pag", "pag", "dense"}[r.Intn(5)], 0
	default: // C14 C15 C16: all five kinds
		switch r.Intn(7) {
		case 0, 1:
			return "dense", 0
		case 2:
			return "sparse", 0
		case 3, 4:
			return "pag", 0
		case 5:
			return "low", pickN()
		default:
			return "high", pickN()
		}
	}
}

func (sg *storeGen) newHandle(id int, receiver bool) {
	k, n := sg.pickKind(receiver)
	clamp := 0
	if k == "low" {
		clamp = 1
	} else if k == "high" {
		clamp = 2
	}
	sg.h[id] = &gstore{kind: k, n: n, truth: NewTruth(clamp, n)}
	if n > 0 {
		sg.g.emit("S %d %s %d", id, k, n)
		if sg.nHint == 0 {
			sg.nHint = n
		}
	} else {
		sg.g.emit("S %d %s", id, k)
	}
	sg.g.stats["kind:"+k]++
}

func (sg *storeGen) nextIndex() int {
	r := sg.g.rng
	var i int
	switch sg.shape {
	case 0: // clustered
		i = sg.base + r.Range(-40, 40)
	case 1: // two far clusters
		d := 1 << uint(r.Range(8, 15))
		if r.Bool(50) {
			i = sg.base + r.Range(-10, 10)
		} else {
			i = sg.base + d + r.Range(-10, 10)
		}
	case 2: // page aligned
		p := sg.base/32 + r.Range(-40, 40)
		i = p*32 + []int{-1, 0, 1, 31, 16}[r.Intn(5)]
	case 3: // walking the array edges
		if r.Bool(8) {
			sg.dir = -sg.dir
		}
		sg.cur += sg.dir * r.Range(1, 70)
		i = sg.cur
	case 4: // single index
		i = sg.base
	case 5: // wide
		i = sg.base + r.Range(-2000, 2000)
	case 7: // one unit entry per page: fills a paginated buffer beyond its compaction trigger
		sg.cur++
		i = sg.base + 32*(sg.cur-sg.base) + r.Intn(32)
		if r.Bool(15) {
			i = sg.base + 32*r.Intn(sg.cur-sg.base+1) + r.Intn(32) // revisit: some pages fill up and compact
		}
	default: // around the bin limit
		n := sg.nHint
		if n == 0 {
			n = 16
		}
		i = sg.base + r.Range(-n, 2*n+2)
	}
	// keep the span of a history bounded so that dense and paginated stores stay small
	if i > sg.base+sg.spanCap {
		i = sg.base + sg.spanCap
	}
	if i < sg.base-sg.spanCap {
		i = sg.base - sg.spanCap
	}
	return i
}

func (sg *storeGen) nextWeight() *big.Rat {
	r := sg.g.rng
	if sg.shape == 7 && r.Bool(85) {
		return ratInt(1)
	}
	switch r.Pick(55, 12, 14, 3, 4, 8, 4) {
	case 0:
		return ratInt(1)
	case 1:
		return ratInt(int64(r.Range(2, 5)))
	case 2:
		return ratFrac(int64(r.Range(1, 4096)), 1024)
	case 3:
		return ratInt(1 << 20)
	case 4:
		return ratInt(0)
	case 5:
		return ratFrac(1, 2)
	default:
		return ratFrac(int64(r.Range(1, 64)), 4)
	}
}

var rewFactors = []string{"1/8", "1/4", "1/2", "2", "4", "8", "3/2", "3/4", "3", "1", "1", "0", "-1", "-1/2"}

func (sg *storeGen) ranksFor(t *Truth) []*big.Rat {
	r := sg.g.rng
	eps := ratFrac(1, 1<<12)
	var out []*big.Rat
	out = append(out, ratInt(-1), ratInt(0))
	cum := new(big.Rat)
	bs := t.Bins()
	for _, b := range bs {
		cum.Add(cum, b.w)
		if len(bs) <= 12 || r.Bool(25) {
			c := new(big.Rat).Set(cum)
			out = append(out, c, new(big.Rat).Sub(c, eps), new(big.Rat).Add(c, eps))
			if c.Cmp(ratInt(1)) >= 0 {
				out = append(out, new(big.Rat).Sub(c, ratInt(1)))
			}
		}
	}
	tot := t.Total()
	out = append(out, new(big.Rat).Add(tot, ratInt(1)), new(big.Rat).Quo(tot, ratInt(2)))
	// keep only ranks that are exactly representable as float64
	var keep []*big.Rat
	for _, x := range out {
		if _, exact := x.Float64(); exact {
			keep = append(keep, x)
		}
	}
	return keep
}

func (sg *storeGen) observe(id int, full bool) {
	sg.g.emit("sobs %d", id)
	t := sg.h[id].truth
	ranks := sg.ranksFor(t)
	if !full && len(ranks) > 4 {
		r := sg.g.rng
		pick := []*big.Rat{}
		for k := 0; k < 4; k++ {
			pick = append(pick, ranks[r.Intn(len(ranks))])
		}
		ranks = pick
	}
	for _, x := range ranks {
		sg.g.emit("skr %d %s", id, showRat(x))
	}
}

func (sg *storeGen) ids() []int {
	out := []int{}
	for i := 1; i <= 4; i++ {
		if _, ok := sg.h[i]; ok {
			out = append(out, i)
		}
	}
	return out
}

// surroundMerge: a narrow, not yet collapsed collapsing receiver (limit N) merged with a store of the SAME
// kind and a larger limit whose range surrounds the receiver's on both sides, is wider than N, and exceeds the
// receiver's range only slightly on the side that is kept — the two-sided extension that additions and
// cross-kind merges (one index at a time) never produce (seeded change C05f).
func (sg *storeGen) surroundMerge() {
	g, r := sg.g, sg.g.rng
	kind := []string{"low", "high"}[r.Intn(2)]
	n := []int{2, 3, 4, 7, 8, 8, 16, 31, 32, 33, 64}[r.Intn(11)]
	m := n + r.Range(1, 4*n+8)
	if r.Bool(20) {
		m = []int{128, 1024, 2048}[r.Intn(3)]
	}
	clamp := 1
	if kind == "high" {
		clamp = 2
	}
	sg.h = map[int]*gstore{}
	sg.h[1] = &gstore{kind: kind, n: n, truth: NewTruth(clamp, n)}
	sg.h[2] = &gstore{kind: kind, n: m, truth: NewTruth(clamp, m)}
	g.emit("S 1 %s %d", kind, n)
	g.emit("S 2 %s %d", kind, m)
	g.stats["surround-merge"]++
	c := sg.base
	// receiver: 1..3 indexes within a window narrower than N
	for k, cnt := 0, r.Range(1, 3); k < cnt; k++ {
		i := c + r.Range(0, (n-1)/2)
		w := ratInt(int64(r.Range(1, 3)))
		sg.h[1].truth.Add(i, w)
		g.emit("sadd 1 %d %s", i, showRat(w))
	}
	// argument: a range wider than N around it; small excess on the kept side
	small, large := r.Range(1, n/2+1), r.Range(n, m)
	lo, hi := c-large, c+(n-1)/2+small
	if kind == "high" {
		lo, hi = c-small, c+(n-1)/2+large
	}
	for i := lo; i <= hi; i++ {
		if i == lo || i == hi || r.Bool(60) {
			w := ratInt(int64(r.Range(1, 3)))
			sg.h[2].truth.Add(i, w)
			g.emit("sadd 2 %d %s", i, showRat(w))
		}
	}
	sg.h[1].truth.Merge(sg.h[2].truth.Copy())
	g.emit("smerge 1 2")
	sg.observe(1, true)
	sg.observe(2, false)
}

// genStoreHistory emits one self-contained store history for property prop.
func (g *Gen) genStoreHistory(prop string, maxOps int) {
	r := g.rng
	sg := &storeGen{g: g, prop: prop, h: map[int]*gstore{}}
	sg.shape = r.Intn(8)
	bases := []int{0, 0, 5, -37, 1000, -1000, 32 * 1000, -32 * 1000, 1 << 16, -(1 << 16), 1<<31 - 1 - 70000, -(1 << 31) + 70000, 1 << 24}
	sg.base = bases[r.Intn(len(bases))] + r.Range(-3, 3)
	sg.cur = sg.base
	sg.dir = 1
	if r.Bool(50) {
		sg.dir = -1
	}
	sg.spanCap = 1 << 16
	g.beginHist(fmt.Sprintf("%s shape=%d base=%d", prop, sg.shape, sg.base))
	g.stats[fmt.Sprintf("shape:%d", sg.shape)]++
	sg.newHandle(1, true)
	sg.newHandle(2, false)
	if r.Bool(50) {
		sg.newHandle(3, false)
	}
	nOps := r.Range(maxOps/4+1, maxOps)
	if prop == "C05" && r.Bool(18) {
		sg.surroundMerge()
		nOps = r.Range(2, 12)
	}
	if sg.shape == 7 {
		nOps = r.Range(150, 420) // enough unit adds to exceed the initial trigger (64) and later ones
		sg.spanCap = 1 << 15
	}
	// op weights per property
	wAdd, wMerge, wCopy, wClear, wRew, wObs := 60, 8, 3, 3, 4, 10
	wCodec := 4
	switch prop {
	case "C15":
		wClear = 10
	case "C16":
		wRew = 14
	case "C14":
		wObs, wCopy = 25, 8
	case "C05":
		wMerge = 12
	}
	for op := 0; op < nOps; op++ {
		ids := sg.ids()
		id := ids[r.Intn(len(ids))]
		if r.Bool(60) {
			id = 1
		}
		e := sg.h[id]
		switch r.Pick(wAdd, wMerge, wCopy, wClear, wRew, wObs, wCodec) {
		case 0:
			i := sg.nextIndex()
			w := sg.nextWeight()
			save := e.truth.Copy()
			e.truth.Add(i, w)
			if !e.truth.InEnvelope() {
				e.truth = save
				g.stats["envelope-refused"]++
				continue
			}
			g.emit("sadd %d %d %s", id, i, showRat(w))
			g.stats["op:add"]++
		case 1:
			o := ids[r.Intn(len(ids))]
			if o == id && !r.Bool(25) {
				continue // (a store merged into itself now and then: it doubles)
			}
			save := e.truth.Copy()
			e.truth.Merge(sg.h[o].truth.Copy())
			if !e.truth.InEnvelope() {
				e.truth = save
				g.stats["envelope-refused"]++
				continue
			}
			g.emit("smerge %d %d", id, o)
			g.stats["op:merge"]++
			g.stats["merge:"+e.kind+"<-"+sg.h[o].kind]++
			if len(sg.h[o].truth.m) == 0 {
				g.stats["merge:empty-arg"]++
			}
			if len(save.m) == 0 {
				g.stats["merge:empty-receiver"]++
			}
			if prop == "C02" || r.Bool(30) {
				sg.observe(o, false) // the argument must be unchanged
			}
		case 2:
			dst := r.Range(2, 4)
			if dst == id {
				continue
			}
			if r.Bool(50) {
				sg.observe(id, false) // a read before the copy (stores may memoise what a read computed)
			}
			g.emit("scopy %d %d", dst, id)
			sg.h[dst] = &gstore{kind: e.kind, n: e.n, truth: e.truth.Copy()}
			g.stats["op:copy"]++
			if r.Bool(60) {
				// copy, then diverge at once: one of the two is mutated, the other is read
				a, b := id, dst
				if r.Bool(50) {
					a, b = dst, id
				}
				ea := sg.h[a]
				switch r.Intn(3) {
				case 0:
					f := []string{"1/2", "2", "4", "1/4", "3"}[r.Intn(5)]
					w, _ := parseRat(f)
					save := ea.truth.Copy()
					ea.truth.Scale(w)
					if ea.truth.InEnvelope() {
						g.emit("srew %d %s", a, f)
					} else {
						ea.truth = save
					}
				case 1:
					i, w := sg.nextIndex(), sg.nextWeight()
					save := ea.truth.Copy()
					ea.truth.Add(i, w)
					if ea.truth.InEnvelope() {
						g.emit("sadd %d %d %s", a, i, showRat(w))
					} else {
						ea.truth = save
					}
				default:
					g.emit("sclear %d", a)
					ea.truth.Clear()
				}
				sg.observe(b, false)
				sg.observe(a, false)
				g.stats["copy-then-diverge"]++
			}
		case 3:
			g.emit("sclear %d", id)
			e.truth.Clear()
			g.stats["op:clear"]++
		case 4:
			f := rewFactors[r.Intn(len(rewFactors))]
			w, _ := parseRat(f)
			if w.Sign() > 0 {
				save := e.truth.Copy()
				e.truth.Scale(w)
				if !e.truth.InEnvelope() {
					e.truth = save
					g.stats["envelope-refused"]++
					continue
				}
			}
			g.emit("srew %d %s", id, f)
			g.stats["op:reweight"]++
		case 6:
			// binary encoding / protobuf of one store merged into another (or itself)
			o := ids[r.Intn(len(ids))]
			src := sg.h[o]
			if !int32Keys(src.truth) {
				continue
			}
			save := e.truth.Copy()
			arg := src.truth
			if o == id {
				arg = src.truth.Copy()
			}
			e.truth.Merge(arg)
			if !e.truth.InEnvelope() || !varfloatOK(arg) {
				e.truth = save
				g.stats["envelope-refused"]++
				continue
			}
			if r.Bool(60) {
				g.emit("sencdec %d %d", o, id)
				g.stats["op:encode-decode"]++
			} else {
				g.emit("sproto %d %d", o, id)
				g.stats["op:proto"]++
			}
			if r.Bool(40) {
				sg.observe(o, false)
			}
		default:
			sg.observe(id, false)
			g.stats["op:observe"]++
		}
		if prop == "C14" && r.Bool(50) {
			sg.observe(id, false)
		}
	}
	for _, id := range sg.ids() {
		sg.observe(id, true)
	}
}

func int32Keys(t *Truth) bool {
	for k := range t.m {
		if k < -(1<<31) || k > 1<<31-1 {
			return false
		}
	}
	return true
}

// varfloatOK: every weight survives the +1 / -1 transform of the varfloat codec.
func varfloatOK(t *Truth) bool {
	for _, v := range t.m {
		f, exact := v.Float64()
		if !exact || (f+1)-1 != f {
			return false
		}
	}
	return true
}
