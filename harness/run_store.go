package main

import (
	"fmt"
	"math/big"
	"strconv"

	enc "github.com/DataDog/sketches-go/ddsketch/encoding"
	"github.com/DataDog/sketches-go/ddsketch/store"
)

type storeEntry struct {
	kind     string // dense sparse pag low high
	n        int
	s        store.Store
	truth    *Truth
	poisoned bool
}

func newStore(kind string, n int) (store.Store, *Truth) {
	switch kind {
	case "dense":
		return store.NewDenseStore(), NewTruth(0, 0)
	case "sparse":
		return store.NewSparseStore(), NewTruth(0, 0)
	case "pag":
		return store.NewBufferedPaginatedStore(), NewTruth(0, 0)
	case "low":
		return store.NewCollapsingLowestDenseStore(n), NewTruth(1, n)
	case "high":
		return store.NewCollapsingHighestDenseStore(n), NewTruth(2, n)
	}
	return nil, nil
}

// guard runs f and converts a Go panic into ok=false.
func guard(f func()) (ok bool, msg string) {
	defer func() {
		if r := recover(); r != nil {
			ok = false
			msg = fmt.Sprint(r)
		}
	}()
	f()
	return true, ""
}

func collectForEach(s store.Store) []binRat {
	var out []binRat
	s.ForEach(func(index int, count float64) bool {
		out = append(out, binRat{index, ratOf(count)})
		return false
	})
	return out
}

func collectBinsChan(s store.Store) []binRat {
	var out []binRat
	for b := range s.Bins() {
		out = append(out, binRat{b.Index(), ratOf(b.Count())})
	}
	return out
}

func sameBins(a, b []binRat) bool {
	if len(a) != len(b) {
		return false
	}
	for i := range a {
		if a[i].idx != b[i].idx || a[i].w.Cmp(b[i].w) != 0 {
			return false
		}
	}
	return true
}

func showOptIdx(i int, err error) string {
	if err != nil {
		return "none"
	}
	return strconv.Itoa(i)
}

// storeObs is the API-level observation of a store (what `sobs` prints).
func (r *Runner) storeObs(e *storeEntry) string {
	s := e.s
	var total *big.Rat
	empty := 0
	var mn, mx int
	var errMin, errMax error
	var fe, ch []binRat
	// observers in a different order each time (printed in a fixed one), see sketchObs
	obs := []func(){
		func() { total = ratOf(s.TotalCount()) },
		func() {
			if s.IsEmpty() {
				empty = 1
			}
		},
		func() { mn, errMin = s.MinIndex() },
		func() { mx, errMax = s.MaxIndex() },
		func() { fe = collectForEach(s) },
		func() { ch = collectBinsChan(s) },
	}
	r.obsMode++
	k := r.obsMode % len(obs)
	for i := range obs {
		if (r.obsMode/len(obs))%2 == 0 {
			obs[(k+i)%len(obs)]()
		} else {
			obs[(k+len(obs)-i)%len(obs)]()
		}
	}
	if e.kind == "sparse" {
		sortBins(fe) // Go map order is unspecified
	}
	line := fmt.Sprintf("total=%s empty=%d min=%s max=%s bins=%s", showRat(total), empty,
		showOptIdx(mn, errMin), showOptIdx(mx, errMax), showBinsRat(fe))
	if !sameBins(fe, ch) {
		line += " BINS-CHANNEL-DIFFERS[" + showBinsRat(ch) + "]"
	}
	// direct oracle: the ground-truth map
	t := e.truth
	tb := t.Bins()
	exp := fmt.Sprintf("total=%s empty=%d min=%s max=%s bins=%s", showRat(t.Total()), b2i(len(tb) == 0),
		optKey(tb, true), optKey(tb, false), showBinsRat(tb))
	if exp != line {
		r.oracleFail("store-content", fmt.Sprintf("%s(%d) observed[%s] expected[%s]", e.kind, e.n, line, exp))
	}
	if e.truth.clamp != 0 {
		// C05 boundedness
		if len(fe) > e.n {
			r.oracleFail("bounded-bins", fmt.Sprintf("%s(%d) holds %d bins", e.kind, e.n, len(fe)))
		}
		if len(fe) > 0 && fe[len(fe)-1].idx-fe[0].idx+1 > e.n {
			r.oracleFail("bounded-span", fmt.Sprintf("%s(%d) spans %d..%d", e.kind, e.n, fe[0].idx, fe[len(fe)-1].idx))
		}
	}
	return line
}

func b2i(b bool) int {
	if b {
		return 1
	}
	return 0
}

func optKey(bs []binRat, first bool) string {
	if len(bs) == 0 {
		return "none"
	}
	if first {
		return strconv.Itoa(bs[0].idx)
	}
	return strconv.Itoa(bs[len(bs)-1].idx)
}

func (r *Runner) getStore(h string) (*storeEntry, string) {
	id, err := strconv.Atoi(h)
	if err != nil {
		return nil, "bad-op"
	}
	e, ok := r.stores[id]
	if !ok {
		return nil, "bad-handle"
	}
	if e.poisoned {
		return nil, "poisoned"
	}
	return e, ""
}

func (r *Runner) poison(e *storeEntry, what, msg string) string {
	e.poisoned = true
	r.oracleFail("panic", fmt.Sprintf("%s on %s(%d): %s", what, e.kind, e.n, msg))
	return "panic"
}

func (r *Runner) execStore(cmd string, a []string) string {
	switch cmd {
	case "S":
		if len(a) < 2 {
			return "bad-op"
		}
		id, err := strconv.Atoi(a[0])
		if err != nil {
			return "bad-op"
		}
		n := 0
		if len(a) >= 3 {
			n, _ = strconv.Atoi(a[2])
		}
		s, t := newStore(a[1], n)
		if s == nil {
			return "bad-op"
		}
		r.stores[id] = &storeEntry{kind: a[1], n: n, s: s, truth: t}
		return "ok"
	case "sadd":
		if len(a) != 3 {
			return "bad-op"
		}
		e, bad := r.getStore(a[0])
		if e == nil {
			return bad
		}
		i, err := strconv.Atoi(a[1])
		w, ok := parseRat(a[2])
		if err != nil || !ok {
			return "bad-op"
		}
		wf, _ := ratToFloatExact(w)
		mode := r.addMode // 0 AddWithCount, rotates through Add/AddBin when applicable
		r.addMode++
		okp, msg := guard(func() {
			switch {
			case wf == 1 && mode%3 == 1:
				e.s.Add(i)
			case mode%3 == 2 && wf >= 0:
				b, _ := store.NewBin(i, wf)
				e.s.AddBin(*b)
			default:
				e.s.AddWithCount(i, wf)
			}
		})
		if !okp {
			return r.poison(e, "add", msg)
		}
		e.truth.Add(i, w)
		return "ok"
	case "smerge":
		if len(a) != 2 {
			return "bad-op"
		}
		e, bad := r.getStore(a[0])
		if e == nil {
			return bad
		}
		o, bad := r.getStore(a[1])
		if o == nil {
			return bad
		}
		okp, msg := guard(func() { e.s.MergeWith(o.s) })
		if !okp {
			return r.poison(e, fmt.Sprintf("merge(arg %s(%d))", o.kind, o.n), msg)
		}
		if o == e {
			e.truth.Merge(e.truth.Copy()) // merging a store into itself doubles it
		} else {
			e.truth.Merge(o.truth)
		}
		return "ok"
	case "scopy":
		if len(a) != 2 {
			return "bad-op"
		}
		id, err := strconv.Atoi(a[0])
		e, bad := r.getStore(a[1])
		if err != nil {
			return "bad-op"
		}
		if e == nil {
			return bad
		}
		r.stores[id] = &storeEntry{kind: e.kind, n: e.n, s: e.s.Copy(), truth: e.truth.Copy()}
		return "ok"
	case "sclear":
		if len(a) != 1 {
			return "bad-op"
		}
		e, bad := r.getStore(a[0])
		if e == nil {
			return bad
		}
		e.s.Clear()
		e.truth.Clear()
		return "ok"
	case "srew":
		if len(a) != 2 {
			return "bad-op"
		}
		e, bad := r.getStore(a[0])
		if e == nil {
			return bad
		}
		w, ok := parseRat(a[1])
		if !ok {
			return "bad-op"
		}
		wf, _ := ratToFloatExact(w)
		var err error
		okp, msg := guard(func() { err = e.s.Reweight(wf) })
		if !okp {
			return r.poison(e, "reweight", msg)
		}
		if err != nil {
			if w.Sign() > 0 {
				r.oracleFail("reweight-refused", fmt.Sprintf("%s refused positive factor %s", e.kind, a[1]))
			}
			return "err"
		}
		if w.Sign() <= 0 {
			r.oracleFail("reweight-accepted", fmt.Sprintf("%s accepted non-positive factor %s", e.kind, a[1]))
		}
		e.truth.Scale(w)
		return "ok"
	case "sencdec", "sproto":
		if len(a) != 2 {
			return "bad-op"
		}
		e, bad := r.getStore(a[0])
		if e == nil {
			return bad
		}
		o, bad := r.getStore(a[1])
		if o == nil {
			return bad
		}
		var derr error
		okp, msg := guard(func() {
			if cmd == "sproto" {
				pb := e.s.ToProto()
				store.MergeWithProto(o.s, pb)
				// store.FromProto: a dense store holding exactly the message's content
				// (a dense array over the whole index span: only for moderate spans)
				if want := e.truth.Bins(); len(want) == 0 || want[len(want)-1].idx-want[0].idx < 100000 {
					if fp := collectForEach(store.FromProto(pb)); !sameBins(fp, want) {
						r.oracleFail("store-from-proto", fmt.Sprintf("%s: FromProto(ToProto()) holds %s, the store %s", e.kind, showBinsRat(fp), showBinsRat(want)))
					}
				}
				return
			}
			var b []byte
			e.s.Encode(&b, enc.FlagTypePositiveStore)
			for len(b) > 0 && derr == nil {
				var f enc.Flag
				f, derr = enc.DecodeFlag(&b)
				if derr == nil {
					derr = o.s.DecodeAndMergeWith(&b, f.SubFlag())
				}
			}
		})
		if !okp {
			return r.poison(o, cmd, msg)
		}
		if derr != nil {
			r.oracleFail("store-roundtrip", fmt.Sprintf("%s: decoding the store's own encoding failed: %v", e.kind, derr))
			return "err"
		}
		src := e.truth
		if o == e {
			src = e.truth.Copy()
		}
		o.truth.Merge(src)
		return "ok"
	case "sobs":
		if len(a) != 1 {
			return "bad-op"
		}
		e, bad := r.getStore(a[0])
		if e == nil {
			return bad
		}
		var line string
		okp, msg := guard(func() { line = r.storeObs(e) })
		if !okp {
			return r.poison(e, "observe", msg)
		}
		return line
	case "skr":
		if len(a) != 2 {
			return "bad-op"
		}
		e, bad := r.getStore(a[0])
		if e == nil {
			return bad
		}
		rk, ok := parseRat(a[1])
		if !ok {
			return "bad-op"
		}
		rf, _ := ratToFloatExact(rk)
		if e.s.IsEmpty() {
			return "unspec"
		}
		var k int
		okp, msg := guard(func() { k = e.s.KeyAtRank(rf) })
		if !okp {
			return r.poison(e, "KeyAtRank", msg)
		}
		if tk, ok := e.truth.KeyAtRank(rk); ok && tk != k {
			r.oracleFail("key-at-rank", fmt.Sprintf("%s(%d) rank %s: got %d want %d", e.kind, e.n, a[1], k, tk))
		}
		return strconv.Itoa(k)
	}
	return "bad-op"
}

var _ = big.NewRat
