package main

import (
	"math"
)

// genDatasetHistory (C20): additions (duplicates, negatives, unsorted arrival), queries interleaved
// with additions, merges (self-merge included).
func (g *Gen) genDatasetHistory() {
	r := g.rng
	g.beginHist("C20")
	g.emit("D 1")
	g.emit("D 2")
	n := []int{0, 0, 0}
	maxOps := 60
	if g.thorough() {
		maxOps = 500
	}
	nOps := r.Range(1, maxOps)
	var pool []float64
	val := func() float64 {
		switch r.Pick(30, 25, 15, 15, 15) {
		case 0:
			return float64(r.Range(-50, 50))
		case 1:
			return (r.Float01() - 0.5) * math.Pow(10, float64(r.Range(-5, 8)))
		case 2:
			if len(pool) > 0 {
				return pool[r.Intn(len(pool))]
			}
			return 0
		case 3:
			return float64(r.Range(-5, 5)) / 8
		default:
			return r.Float01()
		}
	}
	query := func(h int) {
		cnt := float64(n[h])
		var q float64
		switch r.Pick(35, 15, 25, 15, 10) {
		case 0:
			if cnt >= 2 {
				q = float64(r.Intn(n[h])) / (cnt - 1)
				q = []float64{q, math.Nextafter(q, 0), math.Nextafter(q, 2)}[r.Intn(3)]
			} else {
				q = r.Float01()
			}
		case 1:
			q = []float64{0, 1}[r.Intn(2)]
		case 2:
			q = r.Float01()
		case 3:
			q = float64(r.Intn(17)) / 16
		default:
			q = []float64{-0.1, 1.1, math.Nextafter(1, 2), -1e-300, 2, math.Inf(1), math.Inf(-1), math.NaN()}[r.Intn(8)]
		}
		if r.Bool(50) {
			g.emit("dlq %d %s", h, hexF(q))
		} else {
			g.emit("duq %d %s", h, hexF(q))
		}
	}
	for op := 0; op < nOps; op++ {
		h := 1
		if r.Bool(30) {
			h = 2
		}
		switch r.Pick(55, 25, 5, 5, 4, 6) {
		case 0:
			v := val()
			pool = append(pool, v)
			g.emit("dadd %d %s", h, hexF(v))
			n[h]++
		case 1:
			query(h)
		case 2:
			if n[h] > 0 { // either extreme alone, or both in either order: each must sort for itself
				switch r.Intn(4) {
				case 0:
					g.emit("dmin %d", h)
				case 1:
					g.emit("dmax %d", h)
				case 2:
					g.emit("dmax %d", h)
					g.emit("dmin %d", h)
				default:
					g.emit("dmin %d", h)
					g.emit("dmax %d", h)
				}
			}
		case 3:
			g.emit("dsum %d", h)
			g.emit("dcount %d", h)
		case 4:
			o := 3 - h
			if r.Bool(15) {
				o = h // merging a dataset into itself
			}
			if n[h]+n[o] < 4000 {
				g.emit("dmerge %d %d", h, o)
				n[h] += n[o]
			}
		default:
			query(h)
			query(h)
		}
	}
	for h := 1; h <= 2; h++ {
		for i := 0; i < 6; i++ {
			query(h)
		}
		g.emit("dsum %d", h)
		g.emit("dcount %d", h)
		if n[h] > 0 {
			g.emit("dmin %d", h)
			g.emit("dmax %d", h)
		}
	}
	// a last addition followed by one single query of a random kind
	for h := 1; h <= 2; h++ {
		g.emit("dadd %d %s", h, hexF(val()))
		n[h]++
		switch r.Intn(3) {
		case 0:
			g.emit("dmax %d", h)
		case 1:
			g.emit("dmin %d", h)
		default:
			query(h)
		}
	}
}
