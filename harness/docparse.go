package main

// An independent decoder of the binary sketch format, written from the documentation in
// ddsketch/encoding/flag.go (it shares no code with the library's decoders). It is the direct
// oracle of C07/C08: a stream decodes successfully iff it is well formed, and to this content.

import (
	"errors"
	"math"
	"math/big"
)

var errDocEOF = errors.New("doc: unexpected end of input")
var errDocFlag = errors.New("doc: undefined flag")

type docStream struct {
	b   []byte
	pos int
}

func (d *docStream) uvarint() (uint64, error) {
	var x uint64
	var s uint
	for i := 0; ; i++ {
		if d.pos >= len(d.b) {
			return 0, errDocEOF
		}
		n := d.b[d.pos]
		d.pos++
		if i == 8 {
			return x | uint64(n)<<s, nil
		}
		if n < 0x80 {
			return x | uint64(n)<<s, nil
		}
		x |= uint64(n&0x7f) << s
		s += 7
	}
}

func (d *docStream) varint() (int64, error) {
	u, err := d.uvarint()
	if err != nil {
		return 0, err
	}
	return int64(u>>1) ^ -int64(u&1), nil
}

func (d *docStream) varfloat() (float64, error) {
	var x uint64
	s := uint(57)
	for i := 0; ; i++ {
		if d.pos >= len(d.b) {
			return 0, errDocEOF
		}
		n := d.b[d.pos]
		d.pos++
		if i == 8 {
			x |= uint64(n)
			break
		}
		if n < 0x80 {
			x |= uint64(n) << s
			break
		}
		x |= uint64(n&0x7f) << s
		s -= 7
	}
	bits := (x>>6 | x<<58) + math.Float64bits(1)
	return math.Float64frombits(bits) - 1, nil
}

func (d *docStream) f64le() (float64, error) {
	if d.pos+8 > len(d.b) {
		return 0, errDocEOF
	}
	var u uint64
	for i := 0; i < 8; i++ {
		u |= uint64(d.b[d.pos+i]) << (8 * uint(i))
	}
	d.pos += 8
	return math.Float64frombits(u), nil
}

type docBin struct {
	idx int64
	w   float64
}

type docContent struct {
	zero      float64
	pos, neg  []docBin
	mappings  [][3]float64 // sub-flag, gamma, offset
	counts    []float64
	sums      []float64
	mins      []float64
	maxs      []float64
	boundary  []int // byte offsets at which a block ends (0 included)
	nonFinite bool
}

// docParse reads a whole stream; err != nil iff the stream is malformed or cut inside a block.
func docParse(b []byte) (*docContent, error) {
	d := &docStream{b: b}
	c := &docContent{boundary: []int{0}}
	for d.pos < len(b) {
		f := b[d.pos]
		d.pos++
		typ, sub := f&3, f>>2
		switch typ {
		case 1, 3: // positive / negative store
			var bins []docBin
			n, err := d.uvarint()
			if err != nil {
				return c, err
			}
			switch sub {
			case 1:
				idx := int64(0)
				for i := uint64(0); i < n; i++ {
					dl, err := d.varint()
					if err != nil {
						return c, err
					}
					w, err := d.varfloat()
					if err != nil {
						return c, err
					}
					idx += dl
					bins = append(bins, docBin{idx, w})
				}
			case 2:
				idx := int64(0)
				for i := uint64(0); i < n; i++ {
					dl, err := d.varint()
					if err != nil {
						return c, err
					}
					idx += dl
					bins = append(bins, docBin{idx, 1})
				}
			case 3:
				idx, err := d.varint()
				if err != nil {
					return c, err
				}
				stride, err := d.varint()
				if err != nil {
					return c, err
				}
				for i := uint64(0); i < n; i++ {
					w, err := d.varfloat()
					if err != nil {
						return c, err
					}
					bins = append(bins, docBin{idx, w})
					idx += stride
				}
			default:
				return c, errDocFlag
			}
			if typ == 1 {
				c.pos = append(c.pos, bins...)
			} else {
				c.neg = append(c.neg, bins...)
			}
		case 2: // index mapping
			if sub > 4 {
				return c, errDocFlag
			}
			g, err := d.f64le()
			if err != nil {
				return c, err
			}
			o, err := d.f64le()
			if err != nil {
				return c, err
			}
			c.mappings = append(c.mappings, [3]float64{float64(sub), g, o})
		default: // sketch features
			switch sub {
			case 1:
				z, err := d.varfloat()
				if err != nil {
					return c, err
				}
				c.zero += z
			case 0x28:
				v, err := d.varfloat()
				if err != nil {
					return c, err
				}
				c.counts = append(c.counts, v)
			case 0x21, 0x22, 0x23:
				v, err := d.f64le()
				if err != nil {
					return c, err
				}
				switch sub {
				case 0x21:
					c.sums = append(c.sums, v)
				case 0x22:
					c.mins = append(c.mins, v)
				default:
					c.maxs = append(c.maxs, v)
				}
			default:
				return c, errDocFlag
			}
		}
		c.boundary = append(c.boundary, d.pos)
	}
	return c, nil
}

func (c *docContent) side(pos bool) ([]binRat, bool) {
	src := c.neg
	if pos {
		src = c.pos
	}
	out := make([]binRat, 0, len(src))
	for _, b := range src {
		if math.IsNaN(b.w) || math.IsInf(b.w, 0) || b.w < 0 {
			return nil, false
		}
		out = append(out, binRat{int(b.idx), ratOf(b.w)})
	}
	return out, true
}

var _ = big.NewInt
