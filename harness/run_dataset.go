package main

import (
	"fmt"
	"math"
	"math/big"
	"sort"
	"strconv"

	"github.com/DataDog/sketches-go/dataset"
)

type dsEntry struct {
	d     *dataset.Dataset
	truth []float64 // everything added, in arrival order
}

func showQ(v float64) string { return showF(v) }

func (r *Runner) execDataset(cmd string, a []string) string {
	get := func(h string) (*dsEntry, int) {
		id, err := strconv.Atoi(h)
		if err != nil {
			return nil, 0
		}
		return r.dss[id], id
	}
	switch cmd {
	case "D":
		id, err := strconv.Atoi(a[0])
		if err != nil || len(a) != 1 {
			return "bad-op"
		}
		r.dss[id] = &dsEntry{d: dataset.NewDataset()}
		return "ok"
	case "dadd":
		if len(a) != 2 {
			return "bad-op"
		}
		e, _ := get(a[0])
		v, ok := parseF(a[1])
		if e == nil || !ok {
			return "bad-op"
		}
		e.d.Add(v)
		e.truth = append(e.truth, v)
		return "ok"
	case "dlq", "duq":
		if len(a) != 2 {
			return "bad-op"
		}
		e, _ := get(a[0])
		q, ok := parseF(a[1])
		if e == nil || !ok {
			return "bad-op"
		}
		var v float64
		okp, msg := guard(func() {
			if cmd == "dlq" {
				// Quantile is documented as the lower quantile: every other time ask it instead
				r.obsMode++
				if r.obsMode%2 == 0 {
					v = e.d.Quantile(q)
				} else {
					v = e.d.LowerQuantile(q)
				}
			} else {
				v = e.d.UpperQuantile(q)
			}
		})
		if !okp {
			r.oracleFail("dataset-panic", fmt.Sprintf("%s(%v) on %d values: %s", cmd, q, len(e.truth), msg))
			return "panic"
		}
		r.datasetQuantileOracle(e, cmd == "dlq", q, v)
		return showQ(v)
	case "dmin", "dmax":
		e, _ := get(a[0])
		if e == nil {
			return "bad-op"
		}
		var v float64
		okp, _ := guard(func() {
			if cmd == "dmin" {
				v = e.d.Min()
			} else {
				v = e.d.Max()
			}
		})
		if !okp {
			if len(e.truth) > 0 {
				r.oracleFail("dataset-panic", cmd+" on a non-empty dataset")
			}
			return "panic"
		}
		s := append([]float64{}, e.truth...)
		sort.Float64s(s)
		want := s[0]
		if cmd == "dmax" {
			want = s[len(s)-1]
		}
		if v != want {
			r.oracleFail("dataset-extreme", fmt.Sprintf("%s = %v, true %v", cmd, v, want))
		}
		return showQ(v)
	case "dsum":
		e, _ := get(a[0])
		if e == nil {
			return "bad-op"
		}
		v := e.d.Sum()
		exact, abs := new(big.Rat), new(big.Rat)
		for _, x := range e.truth {
			exact.Add(exact, ratOf(x))
			abs.Add(abs, new(big.Rat).Abs(ratOf(x)))
		}
		bound := new(big.Rat).Mul(abs, big.NewRat(8, 1<<53))
		bound.Add(bound, pow2Rat(-1070))
		if af, _ := abs.Float64(); af < 1e300 && !math.IsNaN(v) && !math.IsInf(v, 0) {
			diff := new(big.Rat).Sub(ratOf(v), exact)
			if diff.Abs(diff).Cmp(bound) > 0 {
				r.oracleFail("dataset-sum", fmt.Sprintf("sum %v, true %s", v, exact.FloatString(10)))
			}
		}
		return showF(v)
	case "dcount":
		e, _ := get(a[0])
		if e == nil {
			return "bad-op"
		}
		if e.d.Count != float64(len(e.truth)) || len(e.d.Values) != len(e.truth) {
			r.oracleFail("dataset-count", fmt.Sprintf("count %v / %d values, %d added", e.d.Count, len(e.d.Values), len(e.truth)))
		}
		return fmt.Sprintf("%s %d", showF(e.d.Count), len(e.d.Values))
	case "dmerge":
		if len(a) != 2 {
			return "bad-op"
		}
		e, _ := get(a[0])
		o, _ := get(a[1])
		if e == nil || o == nil {
			return "bad-handle"
		}
		snapshot := append([]float64{}, o.truth...)
		e.d.Merge(o.d)
		e.truth = append(e.truth, snapshot...)
		return "ok"
	}
	return "bad-op"
}

// datasetQuantileOracle: exact order statistics at floor / ceil of q*(n-1) (C20).
func (r *Runner) datasetQuantileOracle(e *dsEntry, lower bool, q, v float64) {
	n := len(e.truth)
	if math.IsNaN(q) || q < 0 || q > 1 || n == 0 {
		if !math.IsNaN(v) {
			r.oracleFail("dataset-quantile", fmt.Sprintf("q=%v n=%d: expected NaN, got %v", q, n, v))
		}
		return
	}
	s := append([]float64{}, e.truth...)
	sort.Float64s(s)
	t := new(big.Rat).Mul(ratOf(q), ratInt(int64(n-1)))
	var k *big.Int
	if lower {
		k = floorRat(t)
	} else {
		k = ceilRat(t)
	}
	ki := int(k.Int64())
	// q*(n-1) is computed in floating point: when the exact product is within an ulp of an
	// integer the float rank may be that integer
	alt := ki
	ft := q * float64(n-1)
	if lower {
		alt = int(math.Floor(ft))
	} else {
		alt = int(math.Ceil(ft))
	}
	okv := func(i int) bool { return i >= 0 && i < n && s[i] == v }
	if !(okv(ki) || (abs(alt-ki) <= 1 && okv(alt))) {
		r.oracleFail("dataset-quantile", fmt.Sprintf("lower=%v q=%v n=%d: got %v, want the order statistic at rank %d (=%v)", lower, q, n, v, ki, s[ki]))
	}
}

func abs(x int) int {
	if x < 0 {
		return -x
	}
	return x
}
