package main

// Direct property oracles on the implementation's outputs (DESIGN §5 D): the properties are
// evaluated on the real Go results against exact rational arithmetic and the raw inputs.

import (
	"fmt"
	"math"
	"math/big"
	"sort"

	"github.com/DataDog/sketches-go/ddsketch"
	"github.com/DataDog/sketches-go/ddsketch/mapping"
	"github.com/DataDog/sketches-go/ddsketch/store"
)

// delta is the relative slack granted to float evaluation of the mapping formulas (DESIGN §3 S).
const delta = 1.0 / (1 << 40)

func (r *Runner) mappingOf(e *skEntry) mapping.IndexMapping {
	if me, ok := r.maps[e.mh]; ok {
		return me.m
	}
	if s := e.sk(); s != nil {
		return s.IndexMapping
	}
	return nil
}

// addDecision checks the documented decision table of AddWithCount (C13).
func (r *Runner) addDecision(e *skEntry, v, w float64, err error) {
	m := r.mappingOf(e)
	if m == nil || math.IsNaN(w) {
		return
	}
	got := skErrName(err)
	var allowed []string
	if w < 0 {
		allowed = append(allowed, "negcount")
	}
	switch {
	case math.IsNaN(v):
		allowed = append(allowed, "nan")
	case v > m.MaxIndexableValue():
		allowed = append(allowed, "toohigh")
	case v < -m.MaxIndexableValue():
		allowed = append(allowed, "toolow")
	}
	if len(allowed) == 0 {
		allowed = []string{"nil"}
	}
	for _, a := range allowed {
		if a == got {
			return
		}
	}
	r.oracleFail("add-decision", fmt.Sprintf("AddWithCount(%v, %v) returned %s, documented: %v (exact variant: %v)", v, w, got, allowed, e.exact != nil))
}

type cand struct {
	x    float64 // value with sub-minimum magnitudes replaced by 0
	w    *big.Rat
	c0   *big.Rat // cumulative weight before
	c1   *big.Rat // cumulative weight after
	kept bool     // lies in a retained bin of a collapsing store
}

func (r *Runner) candidates(e *skEntry) ([]cand, *big.Rat) {
	if e.candCs != nil && e.candVer == e.inVer && len(e.candCs) == len(e.inputs) {
		return e.candCs, e.candW
	}
	cs, W := r.candidatesUncached(e)
	e.candCs, e.candW, e.candVer = cs, W, e.inVer
	e.candUnit = true
	for _, c := range cs {
		if c.w.Cmp(ratInt(1)) != 0 {
			e.candUnit = false
			break
		}
	}
	return cs, W
}

func (r *Runner) candidatesUncached(e *skEntry) ([]cand, *big.Rat) {
	m := r.mappingOf(e)
	minV := m.MinIndexableValue()
	cs := make([]cand, 0, len(e.inputs))
	for _, in := range e.inputs {
		x := in.v
		if math.Abs(x) <= minV {
			x = 0
		}
		cs = append(cs, cand{x: x, w: in.w, kept: true})
	}
	sort.SliceStable(cs, func(i, j int) bool { return cs[i].x < cs[j].x })
	cum := new(big.Rat)
	for i := range cs {
		cs[i].c0 = new(big.Rat).Set(cum)
		cum.Add(cum, cs[i].w)
		cs[i].c1 = new(big.Rat).Set(cum)
	}
	// retained bins of collapsing stores
	if e.storeKind == "low" || e.storeKind == "high" {
		for _, side := range []float64{1, -1} {
			lo, hi, any := 0, 0, false
			for _, c := range cs {
				if c.x*side > 0 {
					k := m.Index(math.Abs(c.x))
					if !any || k < lo {
						lo = k
					}
					if !any || k > hi {
						hi = k
					}
					any = true
				}
			}
			if !any || hi-lo+1 <= e.n {
				continue
			}
			for i := range cs {
				if cs[i].x*side > 0 {
					k := m.Index(math.Abs(cs[i].x))
					if e.storeKind == "low" && k <= hi-e.n+1 {
						cs[i].kept = false
					}
					if e.storeKind == "high" && k >= lo+e.n-1 {
						cs[i].kept = false
					}
				}
			}
		}
	}
	return cs, cum
}

func withinAlpha(v, x, alpha float64) bool {
	if x == 0 {
		return v == 0
	}
	return math.Abs(v-x) <= alpha*math.Abs(x)*(1+delta)+math.Abs(x)*delta
}

// quantileOracle: decision table (C13), rank/accuracy (C01, C11, C05), range (C11, C12).
func (r *Runner) quantileOracle(e *skEntry, q, v float64, err error) {
	s := e.sk()
	bad := math.IsNaN(q) || q < 0 || q > 1
	if bad {
		if err == nil {
			r.oracleFail("quantile-decision", fmt.Sprintf("GetValueAtQuantile(%v) returned %v without error", q, v))
		}
		return
	}
	if s.IsEmpty() {
		if err == nil {
			r.oracleFail("quantile-decision", fmt.Sprintf("GetValueAtQuantile(%v) on an empty sketch returned %v without error", q, v))
		}
		return
	}
	if err != nil {
		r.oracleFail("quantile-decision", fmt.Sprintf("GetValueAtQuantile(%v) on a non-empty sketch failed: %v", q, err))
		return
	}
	// answer between the reported extremes
	var mn, mx float64
	var e1, e2 error
	if e.exact != nil {
		mn, e1 = e.exact.GetMinValue()
		mx, e2 = e.exact.GetMaxValue()
	} else {
		mn, e1 = s.GetMinValue()
		mx, e2 = s.GetMaxValue()
	}
	if e1 == nil && e2 == nil && !(mn <= v && v <= mx) {
		r.oracleFail("quantile-range", fmt.Sprintf("q=%v: answer %v outside reported [min,max]=[%v,%v]", q, v, mn, mx))
	}
	if !e.known || len(e.inputs) == 0 {
		return
	}
	m := r.mappingOf(e)
	alpha := m.RelativeAccuracy()
	cs, W := r.candidates(e)
	t := new(big.Rat).Mul(ratOf(q), new(big.Rat).Sub(W, ratInt(1)))
	unit := e.candUnit
	one := ratInt(1)
	fl := new(big.Rat).SetInt(floorRat(t))
	ce := new(big.Rat).SetInt(ceilRat(t))
	tPlus, tMinus := new(big.Rat).Add(t, one), new(big.Rat).Sub(t, one)
	ok := false
	anyAcceptable := false
	allKept := true
	for _, c := range cs {
		var acceptable bool
		if unit {
			// x_k with k = floor(t) or ceil(t): [c0, c1) = [k, k+1)
			acceptable = c.c0.Cmp(fl) == 0 || c.c0.Cmp(ce) == 0
		} else {
			// cumulative interval within one unit of weight of t
			acceptable = c.c0.Cmp(tPlus) <= 0 && tMinus.Cmp(c.c1) <= 0
		}
		if !acceptable {
			continue
		}
		anyAcceptable = true
		if !c.kept {
			allKept = false
		}
		if withinAlpha(v, c.x, alpha) {
			ok = true
		}
		// the exact variant clamps answers into [exact min, exact max]: an answer standing for the
		// zero bucket may be a sub-minimum magnitude instead of 0
		if e.exact != nil && c.x == 0 && math.Abs(v) <= m.MinIndexableValue() {
			ok = true
		}
	}
	if anyAcceptable && allKept && !ok {
		r.oracleFail("quantile-accuracy", fmt.Sprintf("q=%v (t=%s, W=%s, n=%d, alpha=%v, store=%s/%d): answer %v is not within alpha of any admissible input",
			q, t.FloatString(6), W.FloatString(6), len(cs), alpha, e.storeKind, e.n, v))
	}
	// q=0 / q=1 land in the bins of the true extremes (plain variant, nothing collapsed)
	if e.exact == nil && unit && allKept && (q == 0 || q == 1) && len(cs) > 0 {
		x := cs[0].x
		if q == 1 {
			x = cs[len(cs)-1].x
		}
		want := 0.0
		if x != 0 {
			want = math.Copysign(m.Value(m.Index(math.Abs(x))), x)
		}
		kept := cs[0].kept
		if q == 1 {
			kept = cs[len(cs)-1].kept
		}
		if kept && want != v {
			r.oracleFail("quantile-extreme-bin", fmt.Sprintf("q=%v: answer %v, bin of the true extreme %v has value %v", q, v, x, want))
		}
	}
}

func floorRat(x *big.Rat) *big.Int {
	q := new(big.Int)
	m := new(big.Int)
	q.DivMod(x.Num(), x.Denom(), m) // Euclidean: floor for positive denominators
	return q
}

func ceilRat(x *big.Rat) *big.Int {
	f := floorRat(x)
	if new(big.Rat).SetInt(f).Cmp(x) == 0 {
		return f
	}
	return f.Add(f, big.NewInt(1))
}

// sketchCoherence: C12 (coherence), C10 (exact statistics), parts of C16.
func (r *Runner) sketchCoherence(e *skEntry, count, sum float64, empty bool, mn float64, errMn error, mx float64, errMx error, fe []feItem) {
	if r.quiet {
		return
	}
	tot := new(big.Rat)
	for _, f := range fe {
		if f.w.Sign() <= 0 {
			r.oracleFail("foreach-nonpositive", fmt.Sprintf("ForEach yielded value %v with weight %s", f.v, showRat(f.w)))
		}
		tot.Add(tot, f.w)
	}
	for i := 1; i < len(fe); i++ {
		if fe[i].v == fe[i-1].v {
			r.oracleFail("foreach-duplicate", fmt.Sprintf("ForEach yielded value %v twice", fe[i].v))
		}
	}
	if (e.exact == nil || e.known) && !math.IsInf(count, 0) && !math.IsNaN(count) && tot.Cmp(ratOf(count)) != 0 {
		r.oracleFail("count-vs-foreach", fmt.Sprintf("count %v but ForEach weights sum to %s", count, showRat(tot)))
	}
	if (e.exact == nil || e.known) && empty != (count == 0) {
		r.oracleFail("empty-vs-count", fmt.Sprintf("IsEmpty=%v count=%v", empty, count))
	}
	if (e.exact == nil || e.known) && (empty != (errMn != nil) || empty != (errMx != nil)) {
		r.oracleFail("extremes-vs-empty", fmt.Sprintf("IsEmpty=%v min err=%v max err=%v", empty, errMn, errMx))
	}
	if e.known && !empty && errMn == nil && errMx == nil && mn > mx {
		r.oracleFail("min-gt-max", fmt.Sprintf("min %v > max %v", mn, mx))
	}
	if !e.known {
		return
	}
	m := r.mappingOf(e)
	if m == nil {
		return
	}
	alpha := m.RelativeAccuracy()
	cs, W := r.candidates(e)
	if W.Cmp(ratOf(count)) != 0 {
		r.oracleFail("count-vs-inputs", fmt.Sprintf("count %v but absorbed weight %s", count, showRat(W)))
	}
	zw := new(big.Rat)
	exactSum := new(big.Rat)
	absSum := new(big.Rat)
	sameSign := true
	sign := 0.0
	for i, c := range cs {
		if c.x == 0 {
			zw.Add(zw, c.w)
		}
		_ = i
	}
	for _, in := range e.inputs {
		x := in.v
		if e.exact == nil && math.Abs(x) <= m.MinIndexableValue() {
			x = 0 // the plain sketch counts sub-minimum magnitudes as 0
		}
		p := new(big.Rat).Mul(ratOf(x), in.w)
		exactSum.Add(exactSum, p)
		absSum.Add(absSum, new(big.Rat).Abs(p))
		if in.v != 0 {
			if sign == 0 {
				sign = math.Copysign(1, in.v)
			} else if math.Copysign(1, in.v) != sign {
				sameSign = false
			}
		}
	}
	if zw.Cmp(ratOf(e.sk().GetZeroCount())) != 0 {
		r.oracleFail("zero-count", fmt.Sprintf("zero count %v but absorbed sub-minimum weight %s", e.sk().GetZeroCount(), showRat(zw)))
	}
	if len(cs) == 0 {
		return
	}
	lo, hi := cs[0], cs[len(cs)-1]
	if e.exact != nil {
		// C10: exact extremes over everything absorbed (raw values, not zero-collapsed)
		tmin, tmax := math.Inf(1), math.Inf(-1)
		for _, in := range e.inputs {
			tmin = math.Min(tmin, in.v)
			tmax = math.Max(tmax, in.v)
		}
		if errMn == nil && mn != tmin {
			r.oracleFail("exact-min", fmt.Sprintf("exact min %v, true min %v", mn, tmin))
		}
		if errMx == nil && mx != tmax {
			r.oracleFail("exact-max", fmt.Sprintf("exact max %v, true max %v", mx, tmax))
		}
		// sum within a few ulps of the total of |value*weight|
		bound := new(big.Rat).Mul(absSum, big.NewRat(8, 1<<53))
		// products and sums in the subnormal range carry an absolute error of half the smallest subnormal each
		bound.Add(bound, new(big.Rat).Mul(ratInt(int64(4*len(e.inputs)+4)), pow2Rat(-1074)))
		diff := new(big.Rat).Sub(ratOf(sum), exactSum)
		if af, _ := absSum.Float64(); af < 1e300 && diff.Abs(diff).Cmp(bound) > 0 {
			r.oracleFail("exact-sum", fmt.Sprintf("exact sum %v, true sum %s (|err| > 8 ulp of Σ|v·w|)", sum, exactSum.FloatString(20)))
		}
		return
	}
	if errMn == nil && lo.kept && !withinAlpha(mn, lo.x, alpha) {
		r.oracleFail("min-accuracy", fmt.Sprintf("min %v, true min %v, alpha %v", mn, lo.x, alpha))
	}
	if errMx == nil && hi.kept && !withinAlpha(mx, hi.x, alpha) {
		r.oracleFail("max-accuracy", fmt.Sprintf("max %v, true max %v, alpha %v", mx, hi.x, alpha))
	}
	if sameSign && (e.storeKind == "dense" || e.storeKind == "sparse" || e.storeKind == "pag") {
		es, _ := exactSum.Float64()
		// the zero bucket contributes 0 instead of its sub-minimum values: allow their mass
		// near the top of the float range the approximate sum overflows although the true one does not
		if math.Abs(es)*(1+alpha) < 1e307 && !math.IsInf(sum, 0) && math.Abs(sum-es) > (alpha*(1+delta)+8*delta)*math.Abs(es)+1e-300 {
			r.oracleFail("sum-accuracy", fmt.Sprintf("sum %v, true sum %v, alpha %v", sum, es, alpha))
		}
	}
}

func storeBins(s store.Store) []binRat {
	out := collectForEach(s)
	sortBins(out)
	return out
}

func truthOf(bs []binRat, clamp, n int) *Truth {
	t := NewTruth(clamp, n)
	for _, b := range bs {
		t.Add(b.idx, b.w)
	}
	return t
}

// encChk: C06 round trip of the implementation's own bytes into every store kind, prefix
// preservation, purity of Encode (C14).
func (r *Runner) encChk(e *skEntry, omit bool) string {
	s := e.sk()
	before := r.obsBefore(e)
	prefix := []byte{0xDE, 0xAD, 0xBE, 0xEF, 0x00, 0x81}
	buf := append([]byte{}, prefix...)
	var plainBytes []byte
	okp, msg := guard(func() {
		if e.exact != nil {
			e.exact.Encode(&buf, omit)
			e.exact.Encode(&plainBytes, omit)
		} else {
			s.Encode(&buf, omit)
			s.Encode(&plainBytes, omit)
		}
	})
	if !okp {
		return r.poisonSk(e, "encode", msg)
	}
	if len(buf) < len(prefix) || string(buf[:len(prefix)]) != string(prefix) {
		r.oracleFail("encode-prefix", "Encode did not preserve the existing buffer content")
	}
	if e.storeKind != "sparse" && string(buf[len(prefix):]) != string(plainBytes) {
		r.oracleFail("encode-append", "Encode(prefix) != prefix ++ Encode(empty)")
	}
	if after := r.sketchObsQuiet(e); after != before {
		r.oracleFail("encode-not-pure", fmt.Sprintf("before[%s] after[%s]", before, after))
	}
	pos, neg := storeBins(s.GetPositiveValueStore()), storeBins(s.GetNegativeValueStore())
	var m mapping.IndexMapping
	if omit {
		m = s.IndexMapping
	}
	targets := []struct {
		kind  string
		n     int
		clamp int
	}{{"dense", 0, 0}, {"sparse", 0, 0}, {"pag", 0, 0}, {"low", 8, 1}, {"high", 8, 2}, {"low", 4096, 1}}
	for _, t := range targets {
		var d *ddsketch.DDSketch
		var derr error
		okd, msgd := guard(func() {
			if e.exact != nil {
				var dx *ddsketch.DDSketchWithExactSummaryStatistics
				dx, derr = ddsketch.DecodeDDSketchWithExactSummaryStatistics(plainBytes, providerOf(t.kind, t.n), m)
				if dx != nil {
					d = dx.DDSketch
					if derr == nil && (dx.GetCount() != e.exact.GetCount() || !(dx.GetSum() == e.exact.GetSum() || (math.IsNaN(dx.GetSum()) && math.IsNaN(e.exact.GetSum())))) {
						r.oracleFail("roundtrip-stats", fmt.Sprintf("exact count/sum differ after decode: count %v -> %v, sum %v -> %v", e.exact.GetCount(), dx.GetCount(), e.exact.GetSum(), dx.GetSum()))
					}
					mn1, _ := dx.GetMinValue()
					mn2, _ := e.exact.GetMinValue()
					mx1, _ := dx.GetMaxValue()
					mx2, _ := e.exact.GetMaxValue()
					if derr == nil && !e.exact.IsEmpty() && (mn1 != mn2 || mx1 != mx2) {
						r.oracleFail("roundtrip-stats", "exact min/max differ after decode")
					}
				}
			} else {
				d, derr = ddsketch.DecodeDDSketch(plainBytes, providerOf(t.kind, t.n), m)
			}
		})
		if !okd {
			r.oracleFail("panic", "decode of own encoding into "+t.kind+": "+msgd)
			continue
		}
		if derr != nil {
			r.oracleFail("roundtrip-error", fmt.Sprintf("decoding the sketch's own encoding into %s failed: %v", t.kind, derr))
			continue
		}
		if !d.IndexMapping.Equals(s.IndexMapping) {
			r.oracleFail("roundtrip-mapping", "decoded mapping differs")
		}
		if math.Float64bits(d.GetZeroCount()) != math.Float64bits(s.GetZeroCount()) && !(d.GetZeroCount() == 0 && s.GetZeroCount() == 0) {
			r.oracleFail("roundtrip-zero", fmt.Sprintf("zero count %v -> %v", s.GetZeroCount(), d.GetZeroCount()))
		}
		wp := truthOf(pos, t.clamp, t.n).Bins()
		wn := truthOf(neg, t.clamp, t.n).Bins()
		if gp := storeBins(d.GetPositiveValueStore()); !sameBins(gp, wp) {
			r.oracleFail("roundtrip-bins", fmt.Sprintf("positive bins into %s(%d): got %s want %s", t.kind, t.n, showBinsRat(gp), showBinsRat(wp)))
		}
		if gn := storeBins(d.GetNegativeValueStore()); !sameBins(gn, wn) {
			r.oracleFail("roundtrip-bins", fmt.Sprintf("negative bins into %s(%d): got %s want %s", t.kind, t.n, showBinsRat(gn), showBinsRat(wn)))
		}
	}
	// C07: the plain decoder accepts the encoding of the exact variant and ignores the statistics
	if e.exact != nil {
		d, derr := ddsketch.DecodeDDSketch(plainBytes, store.SparseStoreConstructor, m)
		if derr != nil {
			r.oracleFail("plain-decodes-exact", fmt.Sprintf("plain decoder rejected an exact-summary encoding: %v", derr))
		} else if gp := storeBins(d.GetPositiveValueStore()); !sameBins(gp, pos) {
			r.oracleFail("plain-decodes-exact", "plain decoder recovered different positive bins")
		}
	}
	return "ok"
}
