package main

// splitmix64: one state derives every random choice, so a batch replays from its seed.
type Rng struct{ s uint64 }

func NewRng(seed uint64) *Rng {
	// scramble the seed so that neighbouring seeds give unrelated streams
	z := seed + 0x632BE59BD9B4E019
	z = (z ^ (z >> 30)) * 0xBF58476D1CE4E5B9
	z = (z ^ (z >> 27)) * 0x94D049BB133111EB
	return &Rng{s: z ^ (z >> 31)}
}

func (r *Rng) U64() uint64 {
	r.s += 0x9E3779B97F4A7C15
	z := r.s
	z = (z ^ (z >> 30)) * 0xBF58476D1CE4E5B9
	z = (z ^ (z >> 27)) * 0x94D049BB133111EB
	return z ^ (z >> 31)
}

// Intn returns a value in [0,n).
func (r *Rng) Intn(n int) int {
	if n <= 0 {
		return 0
	}
	return int(r.U64() % uint64(n))
}

// Range returns a value in [lo,hi].
func (r *Rng) Range(lo, hi int) int { return lo + r.Intn(hi-lo+1) }

func (r *Rng) Bool(pct int) bool { return r.Intn(100) < pct }

func (r *Rng) Float01() float64 { return float64(r.U64()>>11) / float64(1<<53) }

func (r *Rng) Pick(ws ...int) int {
	t := 0
	for _, w := range ws {
		t += w
	}
	x := r.Intn(t)
	for i, w := range ws {
		if x < w {
			return i
		}
		x -= w
	}
	return len(ws) - 1
}
