package main

import "math"

// genStatHistory: stateless `stat` lines — the summary-statistics constructor's decision table and
// its operations on arbitrary (valid and invalid) data.
func (g *Gen) genStatHistory(prop string) {
	r := g.rng
	g.beginHist(prop)
	val := func() float64 {
		switch r.Pick(30, 20, 10, 10, 10, 8, 6, 6) {
		case 0:
			return float64(r.Range(-50, 50))
		case 1:
			return float64(r.Range(-4096, 4096)) / 64
		case 2:
			return (r.Float01() - 0.5) * math.Pow(10, float64(r.Range(-6, 9)))
		case 3:
			return 0
		case 4:
			return math.Copysign(0, -1)
		case 5:
			return math.Inf(1)
		case 6:
			return math.Inf(-1)
		default:
			return []float64{math.MaxFloat64, -math.MaxFloat64, 5e-324, 1e300, -1e300}[r.Intn(5)]
		}
	}
	count := func() float64 {
		switch r.Pick(25, 35, 15, 10, 5, 5, 5) {
		case 0:
			return 0
		case 1:
			return float64(r.Range(1, 1000))
		case 2:
			return float64(r.Range(1, 4096)) / 1024
		case 3:
			return -float64(r.Range(1, 10)) / 4
		case 4:
			return math.Copysign(0, -1)
		case 5:
			return math.Inf(1)
		default:
			return 1 << 40
		}
	}
	factor := func() float64 {
		switch r.Pick(40, 15, 15, 10, 10, 5, 5) {
		case 0:
			// (unit changes: ns -> s, bytes -> GiB, ms -> s … factors far from 1)
			return []float64{0.5, 0.25, 2, 4, 1.5, 0.75, 3, 1, 0.125, 1000, 0.001, 1e-9, 1e-6, 1.0 / (1 << 30), 1e9, 1.0 / 1024, 1e-12}[r.Intn(17)]
		case 1:
			return 0
		case 2:
			return -[]float64{0.5, 1, 2, 3, 0.001}[r.Intn(5)]
		case 3:
			return r.Float01() * 10
		case 4:
			return -r.Float01() * 10
		case 5:
			return math.Inf(1)
		default:
			return math.Copysign(0, -1)
		}
	}
	quad := func() [4]float64 {
		c := count()
		var mn, mx float64
		switch r.Pick(55, 15, 15, 15) {
		case 0: // consistent with the count
			if c == 0 {
				mn, mx = math.Inf(1), math.Inf(-1)
			} else {
				a, b := val(), val()
				mn, mx = math.Min(a, b), math.Max(a, b)
			}
		case 1: // sentinels whatever the count
			mn, mx = math.Inf(1), math.Inf(-1)
		case 2: // min > max
			a, b := val(), val()
			mn, mx = math.Max(a, b), math.Min(a, b)
		default:
			mn, mx = val(), val()
		}
		s := val()
		if r.Bool(2) {
			s = math.NaN()
		}
		if r.Bool(1) {
			mn = math.NaN()
		}
		return [4]float64{c, s, mn, mx}
	}
	sh := func(q [4]float64) string { return hexF(q[0]) + " " + hexF(q[1]) + " " + hexF(q[2]) + " " + hexF(q[3]) }
	n := r.Range(5, 30)
	for i := 0; i < n; i++ {
		q := quad()
		if r.Bool(30) {
			// a chain of operations on the same statistics: inexact additions first, so that the running
			// compensation of the Kahan sum is not zero when the later operations scale / merge it
			line := "stat " + sh(q)
			for k, m := 0, r.Range(2, 6); k < m; k++ {
				switch r.Pick(45, 20, 20, 15, 6, 6) {
				case 4:
					line += " addcount " + hexF(float64(r.Range(0, 64))/4)
				case 5:
					line += " addsum " + hexF(val()*(1+r.Float01()))
				case 0:
					line += " add " + hexF(val()*(1+r.Float01())) + " " + hexF(float64(r.Range(1, 4096))/1000)
				case 1:
					line += " rescale " + hexF(factor())
				case 2:
					line += " reweight " + hexF(factor())
				default:
					line += " merge " + sh(quad())
				}
			}
			g.emit("%s", line)
			continue
		}
		switch r.Pick(20, 25, 20, 20, 15) {
		case 0:
			g.emit("stat " + sh(q) + " new")
		case 1:
			g.emit("stat " + sh(q) + " rescale " + hexF(factor()))
		case 2:
			g.emit("stat " + sh(q) + " reweight " + hexF(factor()))
		case 3:
			w := count()
			g.emit("stat " + sh(q) + " add " + hexF(val()) + " " + hexF(w))
		default:
			g.emit("stat " + sh(q) + " merge " + sh(quad()))
		}
	}
}
