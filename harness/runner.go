package main

import (
	"bufio"
	"fmt"
	"io"
	"strings"
)

// Runner interprets protocol lines on the real implementation.
type Runner struct {
	stores   map[int]*storeEntry
	maps     map[int]*mapEntry
	sks      map[int]*skEntry
	dss      map[int]*dsEntry
	addMode  int
	ctorMode int
	obsMode  int
	peekCtr  int
	// per-history switches set by `#frame` (observe before/after every refused call)
	checkFrame bool
	quiet      bool
	// direct property oracle
	fails    []string
	curHist  int
	curLine  int
	lineText string
	stats    map[string]int
}

func NewRunner() *Runner {
	return &Runner{stores: map[int]*storeEntry{}, maps: map[int]*mapEntry{}, sks: map[int]*skEntry{}, dss: map[int]*dsEntry{}, stats: map[string]int{}}
}

func (r *Runner) reset() {
	r.stores = map[int]*storeEntry{}
	r.maps = map[int]*mapEntry{}
	r.sks = map[int]*skEntry{}
	r.dss = map[int]*dsEntry{}
	r.addMode = 0
	r.checkFrame = false
}

func (r *Runner) oracleFail(kind, detail string) {
	r.fails = append(r.fails, fmt.Sprintf("hist=%d line=%d kind=%s op[%s] %s", r.curHist, r.curLine, kind, r.lineText, detail))
}

// Exec executes one line; emit=false for comment lines.
func (r *Runner) Exec(line string) (out string, emit bool) {
	f := strings.Fields(line)
	if len(f) == 0 {
		return "", false
	}
	if strings.HasPrefix(f[0], "#") {
		if f[0] == "#hist" {
			r.curHist++
			r.reset()
		}
		if f[0] == "#frame" {
			r.checkFrame = true
		}
		return "", false
	}
	r.stats["op:"+f[0]]++
	switch f[0] {
	case "S", "sadd", "smerge", "scopy", "sclear", "srew", "sobs", "skr", "sencdec", "sproto":
		return r.execStore(f[0], f[1:]), true
	case "M", "mv", "ml", "mi", "K", "add", "q", "qs", "obs", "merge", "copy", "clear", "rew", "encchk", "dec", "decm", "same", "fe", "xpanic":
		return r.execSketch(f[0], f[1:]), true
	case "D", "dadd", "dlq", "duq", "dmin", "dmax", "dsum", "dcount", "dmerge":
		return r.execDataset(f[0], f[1:]), true
	case "pbchk", "frompb", "pbeq":
		return r.execProto(f[0], f[1:]), true
	case "chmap":
		return r.execChmap(f[1:]), true
	case "mpchk", "mpalpha", "mscan", "mapenc", "mapeq", "mkalpha", "mkgamma", "mkbin":
		return r.execMapping(f[0], f[1:]), true
	case "codec":
		return r.execCodec(f[1:]), true
	case "stat":
		return r.execStat(f[1:]), true
	}
	return "bad-op", true
}

func (r *Runner) RunAll(in io.Reader, out io.Writer) {
	sc := bufio.NewScanner(in)
	sc.Buffer(make([]byte, 1<<20), 1<<26)
	w := bufio.NewWriter(out)
	defer w.Flush()
	for sc.Scan() {
		r.curLine++
		r.lineText = sc.Text()
		if len(r.lineText) > 120 {
			r.lineText = r.lineText[:120] + "…"
		}
		o, emit := r.Exec(sc.Text())
		if emit {
			fmt.Fprintln(w, o)
		}
	}
}
