package main

// hx consts -repo /repo -out Consts.lean
// Regenerates DDS/Generated/Consts.lean from the Go sources on every run, so that the theorems
// that depend on those values are re-checked by the kernel against what the source says now.

import (
	"fmt"
	"go/ast"
	"go/constant"
	"go/parser"
	"go/token"
	"math"
	"math/big"
	"os"
	"path/filepath"
	"sort"
	"strings"
)

type constEnv struct {
	vals map[string]constant.Value
}

func (e *constEnv) eval(x ast.Expr) (constant.Value, bool) {
	switch t := x.(type) {
	case *ast.BasicLit:
		v := constant.MakeFromLiteral(t.Value, t.Kind, 0)
		return v, v.Kind() != constant.Unknown
	case *ast.ParenExpr:
		return e.eval(t.X)
	case *ast.Ident:
		v, ok := e.vals[t.Name]
		return v, ok
	case *ast.UnaryExpr:
		v, ok := e.eval(t.X)
		if !ok {
			return nil, false
		}
		return constant.UnaryOp(t.Op, v, 0), true
	case *ast.BinaryExpr:
		a, ok1 := e.eval(t.X)
		b, ok2 := e.eval(t.Y)
		if !ok1 || !ok2 {
			return nil, false
		}
		if t.Op == token.SHL || t.Op == token.SHR {
			s, ok := constant.Uint64Val(constant.ToInt(b))
			if !ok {
				return nil, false
			}
			return constant.Shift(constant.ToInt(a), t.Op, uint(s)), true
		}
		if t.Op == token.QUO && a.Kind() == constant.Int && b.Kind() == constant.Int {
			return constant.BinaryOp(a, token.QUO_ASSIGN, b), true // integer division
		}
		return constant.BinaryOp(a, t.Op, b), true
	case *ast.CallExpr: // conversions such as uint64(0x...) / byte(...)
		if id, ok := t.Fun.(*ast.Ident); ok && len(t.Args) == 1 {
			switch id.Name {
			case "uint64", "int", "byte", "uint", "int64", "float64":
				return e.eval(t.Args[0])
			}
		}
	}
	return nil, false
}

func parseFile(path string) *ast.File {
	fset := token.NewFileSet()
	f, err := parser.ParseFile(fset, path, nil, 0)
	if err != nil {
		fmt.Fprintln(os.Stderr, "consts: cannot parse", path, err)
		os.Exit(3)
	}
	return f
}

func (e *constEnv) loadConsts(f *ast.File) {
	for _, d := range f.Decls {
		gd, ok := d.(*ast.GenDecl)
		if !ok || gd.Tok != token.CONST {
			continue
		}
		for _, s := range gd.Specs {
			vs := s.(*ast.ValueSpec)
			for i, n := range vs.Names {
				if i < len(vs.Values) {
					if v, ok := e.eval(vs.Values[i]); ok {
						e.vals[n.Name] = v
					}
				}
			}
		}
	}
}

func f64bits(v constant.Value) uint64 {
	f, _ := constant.Float64Val(constant.ToFloat(v))
	return math.Float64bits(f)
}

func ratLit(v constant.Value) string {
	v = constant.ToFloat(v)
	num := constant.Num(v)
	den := constant.Denom(v)
	n, _ := new(big.Int).SetString(num.ExactString(), 10)
	d, _ := new(big.Int).SetString(den.ExactString(), 10)
	if n == nil || d == nil {
		return "0"
	}
	if n.Sign() < 0 {
		return fmt.Sprintf("(%s : Int) / %s", n.String(), d.String())
	}
	return fmt.Sprintf("%s / %s", n.String(), d.String())
}

func genConsts(repo, out string) {
	e := &constEnv{vals: map[string]constant.Value{}}
	encDir := filepath.Join(repo, "ddsketch", "encoding")
	mapDir := filepath.Join(repo, "ddsketch", "mapping")
	stDir := filepath.Join(repo, "ddsketch", "store")
	flagF := parseFile(filepath.Join(encDir, "flag.go"))
	for _, p := range []string{
		filepath.Join(encDir, "encoding.go"),
		filepath.Join(mapDir, "index_mapping.go"), filepath.Join(mapDir, "bit_operation_helper.go"),
		filepath.Join(mapDir, "cubically_interpolated_mapping.go"),
		filepath.Join(stDir, "dense_store.go"), filepath.Join(stDir, "buffered_paginated.go"),
	} {
		e.loadConsts(parseFile(p))
	}
	e.loadConsts(flagF)

	lines := map[string]string{}
	nat := func(lean, goName string) {
		v, ok := e.vals[goName]
		if !ok {
			fmt.Fprintln(os.Stderr, "consts: missing constant", goName)
			os.Exit(3)
		}
		u, _ := constant.Uint64Val(constant.ToInt(v))
		lines[lean] = fmt.Sprintf("def %s : Nat := %d", lean, u)
	}
	nat("maxVarLen64", "MaxVarLen64")
	nat("varfloat64Rotate", "varfloat64Rotate")
	nat("numBitsForType", "numBitsForType")
	nat("defaultPageLenLog2", "defaultPageLenLog2")
	nat("arrayLengthOverhead", "arrayLengthOverhead")
	nat("exponentBias", "exponentBias")
	nat("exponentMask", "exponentMask")
	nat("exponentShift", "exponentShift")
	nat("significandMask", "significandMask")
	nat("oneMask", "oneMask")
	bits := func(lean, goName string) {
		v, ok := e.vals[goName]
		if !ok {
			fmt.Fprintln(os.Stderr, "consts: missing constant", goName)
			os.Exit(3)
		}
		lines[lean] = fmt.Sprintf("def %s : Nat := 0x%016x", lean, f64bits(v))
	}
	bits("arrayLengthGrowthIncrementBits", "arrayLengthGrowthIncrement")
	bits("expOverflowBits", "expOverflow")
	bits("minNormalFloat64Bits", "minNormalFloat64")
	for _, n := range []string{"A", "B", "C"} {
		v, ok := e.vals[n]
		if !ok {
			fmt.Fprintln(os.Stderr, "consts: missing constant", n)
			os.Exit(3)
		}
		lines["cubic"+n] = fmt.Sprintf("def cubic%s : Rat := %s", n, ratLit(v))
	}

	// flag.go: var ( X = FlagType{0b..} | NewFlag(T, newSubFlag(n)) | newSubFlag(n) )
	flagTypes := map[string]uint64{}
	subOf := func(x ast.Expr) (uint64, bool) {
		c, ok := x.(*ast.CallExpr)
		if !ok {
			return 0, false
		}
		if id, ok := c.Fun.(*ast.Ident); !ok || id.Name != "newSubFlag" || len(c.Args) != 1 {
			return 0, false
		}
		v, ok := e.eval(c.Args[0])
		if !ok {
			return 0, false
		}
		u, _ := constant.Uint64Val(constant.ToInt(v))
		return u, true
	}
	for _, d := range flagF.Decls {
		gd, ok := d.(*ast.GenDecl)
		if !ok || gd.Tok != token.VAR {
			continue
		}
		for _, s := range gd.Specs {
			vs := s.(*ast.ValueSpec)
			for i, n := range vs.Names {
				if i >= len(vs.Values) {
					continue
				}
				switch x := vs.Values[i].(type) {
				case *ast.CompositeLit:
					if id, ok := x.Type.(*ast.Ident); ok && id.Name == "FlagType" && len(x.Elts) == 1 {
						if v, ok := e.eval(x.Elts[0]); ok {
							u, _ := constant.Uint64Val(constant.ToInt(v))
							flagTypes[n.Name] = u
							name := strings.ToLower(n.Name[:1]) + n.Name[1:]
							lines[name] = fmt.Sprintf("def %s : Nat := %d", name, u)
						}
					}
				case *ast.CallExpr:
					if id, ok := x.Fun.(*ast.Ident); ok && id.Name == "NewFlag" && len(x.Args) == 2 {
						if u, ok := subOf(x.Args[1]); ok {
							name := "sub" + n.Name
							lines[name] = fmt.Sprintf("def %s : Nat := %d", name, u)
							if t, ok := x.Args[0].(*ast.Ident); ok {
								tn := "typeOf" + n.Name
								lines[tn] = fmt.Sprintf("def %s : Nat := %d", tn, flagTypes[t.Name])
							}
						}
					} else if u, ok := subOf(x); ok {
						name := strings.ToLower(n.Name[:1]) + n.Name[1:]
						lines[name] = fmt.Sprintf("def %s : Nat := %d", name, u)
					}
				}
			}
		}
	}
	keys := make([]string, 0, len(lines))
	for k := range lines {
		keys = append(keys, k)
	}
	sort.Strings(keys)
	var sb strings.Builder
	sb.WriteString("/- GENERATED by `hx consts` from the Go sources under /repo — DO NOT EDIT.\n   Regenerated on every run of a check; theorems that depend on these values are re-checked. -/\nnamespace DDS.Consts\n")
	for _, k := range keys {
		sb.WriteString(lines[k] + "\n")
	}
	sb.WriteString("end DDS.Consts\n")
	// only touch the file when the content changes, so that `lake build` stays a no-op
	old, _ := os.ReadFile(out)
	if string(old) != sb.String() {
		os.WriteFile(out, []byte(sb.String()), 0o644)
	}
}
