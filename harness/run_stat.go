package main

// stat <count> <sum> <min> <max> <op> …: stat.SummaryStatistics driven directly (see StatOps.lean).
// Direct oracle: the constructor's decision table (C13) and what each operation must do to the exact
// count / extremes (C10, C16, C17), written independently of the library.

import (
	"math/big"
	"fmt"
	"math"

	"github.com/DataDog/sketches-go/ddsketch/stat"
)

func statDecision(c, mn, mx float64) bool { // true = must be refused
	if !(c >= 0) {
		return true
	}
	if c > 0 && mn > mx {
		return true
	}
	if c == 0 && (mn != math.Inf(1) || mx != math.Inf(-1)) {
		return true
	}
	return false
}

func showStat(s *stat.SummaryStatistics) string {
	return fmt.Sprintf("count=%s sum=%s min=%s max=%s", showF(s.Count()), showF(s.Sum()), showF(s.Min()), showF(s.Max()))
}

func anyNaN(xs ...float64) bool {
	for _, x := range xs {
		if math.IsNaN(x) {
			return true
		}
	}
	return false
}

func (r *Runner) execStat(a []string) string {
	if len(a) < 5 {
		return "bad-op"
	}
	var f [4]float64
	for i := 0; i < 4; i++ {
		v, ok := parseF(a[i])
		if !ok {
			return "bad-op"
		}
		f[i] = v
	}
	mk := func(c, s, mn, mx float64) *stat.SummaryStatistics {
		st, err := stat.NewSummaryStatisticsFromData(c, s, mn, mx)
		if !anyNaN(c, mn, mx) {
			if want := statDecision(c, mn, mx); (err != nil) != want {
				r.oracleFail("constructor-decision", fmt.Sprintf("NewSummaryStatisticsFromData(%v,%v,%v,%v): err=%v", c, s, mn, mx, err))
			}
		}
		if err != nil {
			return nil
		}
		if st.Count() != c || (st.Sum() != s && !math.IsNaN(s)) || (st.Min() != mn && !math.IsNaN(mn)) || (st.Max() != mx && !math.IsNaN(mx)) {
			r.oracleFail("stat-from-data", fmt.Sprintf("statistics built from (%v,%v,%v,%v) report %s", c, s, mn, mx, showStat(st)))
		}
		return st
	}
	var out string
	okp, msg := guard(func() {
		st := mk(f[0], f[1], f[2], f[3])
		if st == nil {
			out = "err"
			return
		}
		ops := a[4:]
		first := true
		// exact bookkeeping for the sum (C10: error at most a few ulps of the total of |value*weight|): valid while
		// every operand is finite; the starting sum is the float f[1] itself (compensation 0)
		track := !anyNaN(f[0], f[1], f[2], f[3]) && !math.IsInf(f[1], 0)
		exact, absTot := new(big.Rat), new(big.Rat)
		if track && f[1] != 0 && math.Abs(f[1]) < 1e-280 {
			track = false
		}
		if track {
			exact.SetFloat64(f[1])
			absTot.Abs(exact)
		}
		fin := func(xs ...float64) bool {
			for _, x := range xs {
				if math.IsNaN(x) || math.IsInf(x, 0) {
					return false
				}
			}
			return true
		}
		rat := func(x float64) *big.Rat { return new(big.Rat).SetFloat64(x) }
		// products or partial results near the subnormal range are rounded with an absolute, not a relative, error:
		// "a few ulps of the total" says nothing there, the bookkeeping stops
		tiny := func(x float64) bool { return x != 0 && math.Abs(x) < 1e-280 }
		checkSum := func(what string) {
			if !track {
				return
			}
			a, _ := absTot.Float64()
			if a > 1e300 || math.IsInf(st.Sum(), 0) || math.IsNaN(st.Sum()) {
				track = false
				return
			}
			got := rat(st.Sum())
			d := new(big.Rat).Sub(got, exact)
			d.Abs(d)
			ulp := math.Nextafter(a, math.Inf(1)) - a
			tol := new(big.Rat).Add(new(big.Rat).Mul(rat(ulp), big.NewRat(8, 1)), rat(math.SmallestNonzeroFloat64*64))
			if d.Cmp(tol) > 0 {
				df, _ := d.Float64()
				ef, _ := exact.Float64()
				r.oracleFail("stat-sum-accuracy", fmt.Sprintf("after %s: Sum()=%v, exact sum %v (total of |value*weight| %v): error %v = %.3g ulps", what, st.Sum(), ef, a, df, df/ulp))
				track = false
			}
		}
		for len(ops) > 0 {
			// the direct oracle describes one operation on freshly constructed statistics (compensation 0)
			clean := first && !anyNaN(f[0], f[1], f[2], f[3]) && !math.IsInf(f[1], 0)
			first = false
			cur := [4]float64{st.Count(), st.Sum(), st.Min(), st.Max()}
			switch {
			case ops[0] == "new":
				ops = ops[1:]
			case (ops[0] == "addcount" || ops[0] == "addsum") && len(ops) >= 2:
				k, ok := parseF(ops[1])
				if !ok {
					out = "bad-op"
					return
				}
				if ops[0] == "addsum" {
					if track && fin(k) && !tiny(k) {
						exact.Add(exact, rat(k))
						absTot.Add(absTot, new(big.Rat).Abs(rat(k)))
					} else {
						track = false
					}
				}
				if ops[0] == "addcount" {
					st.AddToCount(k)
					if clean && !math.IsNaN(k) && st.Count() != cur[0]+k {
						r.oracleFail("stat-add", fmt.Sprintf("AddToCount(%v) on %v gives %v", k, cur[0], st.Count()))
					}
				} else {
					st.AddToSum(k)
					// Sum() returns sum + sumCompensation where Kahan's total is sum − sumCompensation (the pattern of
					// JDK-8214761): off by up to 2|c| ≤ one ulp, plus the rounding of that addition — within two ulps of the
					// exact a+k, which is inside the "few ulps" of C10 (DESIGN §7, findings outside the properties)
					if clean && !math.IsNaN(k) && !math.IsInf(k, 0) {
						ex := new(big.Rat).Add(rat(cur[1]), rat(k))
						ef, _ := ex.Float64()
						if math.Abs(ef) < 1e300 && !math.IsInf(st.Sum(), 0) && !math.IsNaN(st.Sum()) {
							d := new(big.Rat).Sub(rat(st.Sum()), ex)
							ulp := math.Nextafter(math.Abs(ef), math.Inf(1)) - math.Abs(ef)
							if d.Abs(d).Cmp(rat(2*ulp)) > 0 {
								r.oracleFail("stat-add", fmt.Sprintf("AddToSum(%v) on %v gives %v", k, cur[1], st.Sum()))
							}
						}
					}
				}
				ops = ops[2:]
			case ops[0] == "rescale" && len(ops) >= 2:
				k, ok := parseF(ops[1])
				if !ok {
					out = "bad-op"
					return
				}
				ops = ops[2:]
				st.Rescale(k)
				if track && fin(k) && !tiny(st.Sum()) && !tiny(k) {
					exact.Mul(exact, rat(k))
					absTot.Mul(absTot, new(big.Rat).Abs(rat(k)))
					checkSum(fmt.Sprintf("Rescale(%v)", k))
				} else {
					track = false
				}
				// unit change by a positive factor: count kept, extremes scaled (C17); min <= max kept for any factor
				if clean && cur[0] > 0 && !math.IsNaN(k) && !math.IsInf(k, 0) {
					if st.Count() != cur[0] {
						r.oracleFail("stat-rescale", fmt.Sprintf("Rescale(%v) changed the count %v -> %v", k, cur[0], st.Count()))
					}
					if k > 0 && (st.Min() != cur[2]*k || st.Max() != cur[3]*k) {
						r.oracleFail("stat-rescale", fmt.Sprintf("Rescale(%v) of [%v,%v] gives [%v,%v]", k, cur[2], cur[3], st.Min(), st.Max()))
					}
					if st.Min() > st.Max() {
						r.oracleFail("stat-rescale", fmt.Sprintf("Rescale(%v) of [%v,%v] gives min %v > max %v", k, cur[2], cur[3], st.Min(), st.Max()))
					}
				}
			case ops[0] == "reweight" && len(ops) >= 2:
				k, ok := parseF(ops[1])
				if !ok {
					out = "bad-op"
					return
				}
				ops = ops[2:]
				st.Reweight(k)
				if track && fin(k) && !tiny(st.Sum()) && !tiny(k) {
					exact.Mul(exact, rat(k))
					absTot.Mul(absTot, new(big.Rat).Abs(rat(k)))
					checkSum(fmt.Sprintf("Reweight(%v)", k))
				} else {
					track = false
				}
				// C16: count and sum scale, extremes unchanged (factor > 0)
				if clean && k > 0 && !math.IsInf(k, 0) {
					if st.Count() != cur[0]*k || st.Min() != cur[2] || st.Max() != cur[3] {
						r.oracleFail("stat-reweight", fmt.Sprintf("Reweight(%v) of count %v [%v,%v] gives %s", k, cur[0], cur[2], cur[3], showStat(st)))
					}
					if want := cur[1] * k; st.Sum() != want && !math.IsNaN(want) {
						r.oracleFail("stat-reweight", fmt.Sprintf("Reweight(%v): sum %v -> %v, want %v", k, cur[1], st.Sum(), want))
					}
				}
			case ops[0] == "add" && len(ops) >= 3:
				v, ok1 := parseF(ops[1])
				w, ok2 := parseF(ops[2])
				if !ok1 || !ok2 {
					out = "bad-op"
					return
				}
				ops = ops[3:]
				st.Add(v, w)
				if track && fin(v, w) && !tiny(v*w) && !tiny(st.Sum()) {
					pr := new(big.Rat).Mul(rat(v), rat(w))
					exact.Add(exact, pr)
					absTot.Add(absTot, pr.Abs(pr))
					checkSum(fmt.Sprintf("Add(%v,%v)", v, w))
				} else {
					track = false
				}
				if clean && !anyNaN(v, w) {
					if st.Count() != cur[0]+w || st.Min() != math.Min(cur[2], v) || st.Max() != math.Max(cur[3], v) {
						r.oracleFail("stat-add", fmt.Sprintf("Add(%v,%v) to count %v [%v,%v] gives %s", v, w, cur[0], cur[2], cur[3], showStat(st)))
					}
				}
			case ops[0] == "merge" && len(ops) >= 5:
				var g [4]float64
				for i := 0; i < 4; i++ {
					v, ok := parseF(ops[1+i])
					if !ok {
						out = "bad-op"
						return
					}
					g[i] = v
				}
				ops = ops[5:]
				o := mk(g[0], g[1], g[2], g[3])
				if o == nil {
					out = "err"
					return
				}
				before := showStat(o)
				st.MergeWith(o)
				if track && fin(g[0], g[1], g[2], g[3]) {
					exact.Add(exact, rat(g[1]))
					absTot.Add(absTot, new(big.Rat).Abs(rat(g[1])))
					checkSum("MergeWith")
				} else {
					track = false
				}
				if after := showStat(o); after != before {
					r.oracleFail("stat-merge", "MergeWith changed its argument: "+before+" -> "+after)
				}
				if clean && !anyNaN(g[0], g[1], g[2], g[3]) {
					if st.Count() != cur[0]+g[0] || st.Min() != math.Min(cur[2], g[2]) || st.Max() != math.Max(cur[3], g[3]) {
						r.oracleFail("stat-merge", fmt.Sprintf("merge of count %v [%v,%v] and count %v [%v,%v] gives %s", cur[0], cur[2], cur[3], g[0], g[2], g[3], showStat(st)))
					}
				}
			default:
				out = "bad-op"
				return
			}
		}
		out = showStat(st)
	})
	if !okp {
		r.oracleFail("panic", "stat: "+msg)
		return "panic"
	}
	return out
}
