package main

import (
	"fmt"
	"math"
	"math/big"

	"github.com/DataDog/sketches-go/ddsketch"
	"github.com/DataDog/sketches-go/ddsketch/mapping"
)

type skSnapshot struct {
	pos, neg []binRat
	zero     float64
	empty    bool
	xcount   float64
}

func snapshot(e *skEntry) skSnapshot {
	s := e.sk()
	sn := skSnapshot{pos: storeBins(s.GetPositiveValueStore()), neg: storeBins(s.GetNegativeValueStore()), zero: s.GetZeroCount(), empty: s.IsEmpty()}
	if e.exact != nil {
		sn.xcount = e.exact.GetCount()
	}
	return sn
}

func clampOf(kind string) int {
	switch kind {
	case "low":
		return 1
	case "high":
		return 2
	}
	return 0
}

// decodeOracle (C07, C08, C06): a stream decodes successfully iff the independent documentation
// decoder accepts it (and a consistent mapping is available), and then to the documented content.
func (r *Runner) decodeOracle(bs []byte, provided mapping.IndexMapping, isX bool, kind string, n int, before skSnapshot, got *ddsketch.DDSketch, derr error) {
	doc, perr := docParse(bs)
	if perr != nil {
		if derr == nil {
			r.oracleFail("malformed-accepted", fmt.Sprintf("decoding succeeded on a stream the documentation rejects (%v at a cut inside a block; %d bytes, last complete block ends at %d)", perr, len(bs), doc.boundary[len(doc.boundary)-1]))
		}
		return
	}
	expectErr := ""
	cur := provided
	for _, mb := range doc.mappings {
		kinds := map[float64]string{0: "log", 1: "linear", 3: "cubic"}
		k, ok := kinds[mb[0]]
		if !ok {
			expectErr = "unsupported mapping"
			break
		}
		if !(mb[1] > 1) {
			expectErr = "gamma <= 1"
			break
		}
		m2, _ := newMapping(k, mb[1], mb[2])
		if cur != nil && !cur.Equals(m2) {
			expectErr = "mapping mismatch"
			break
		}
		cur = m2
	}
	if expectErr == "" && cur == nil {
		expectErr = "no mapping"
	}
	pos, okp := doc.side(true)
	neg, okn := doc.side(false)
	if !okp || !okn || math.IsNaN(doc.zero) || math.IsInf(doc.zero, 0) || doc.zero < 0 {
		return // weights outside the documented contract: not claimed
	}
	tp := truthOf(before.pos, clampOf(kind), n)
	for _, b := range pos {
		tp.Add(b.idx, b.w)
	}
	tn := truthOf(before.neg, clampOf(kind), n)
	for _, b := range neg {
		tn.Add(b.idx, b.w)
	}
	zero := new(big.Rat).Add(ratOf(before.zero), ratOf(doc.zero))
	if expectErr == "" && isX {
		cnt := before.xcount
		for _, c := range doc.counts {
			cnt += c
		}
		resultEmpty := len(tp.m) == 0 && len(tn.m) == 0 && zero.Sign() == 0
		if cnt == 0 && !resultEmpty {
			expectErr = "missing exact statistics"
		}
	}
	if expectErr != "" {
		if derr == nil {
			r.oracleFail("invalid-stream-accepted", fmt.Sprintf("decoding succeeded although: %s", expectErr))
		}
		return
	}
	if derr != nil {
		r.oracleFail("valid-stream-rejected", fmt.Sprintf("well-formed stream (%d blocks, %d bytes) rejected: %v", len(doc.boundary)-1, len(bs), derr))
		return
	}
	if got == nil {
		return
	}
	if gp := storeBins(got.GetPositiveValueStore()); !sameBins(gp, tp.Bins()) {
		r.oracleFail("decoded-content", fmt.Sprintf("positive bins into %s(%d): got %s documented %s", kind, n, showBinsRat(gp), showBinsRat(tp.Bins())))
	}
	if gn := storeBins(got.GetNegativeValueStore()); !sameBins(gn, tn.Bins()) {
		r.oracleFail("decoded-content", fmt.Sprintf("negative bins into %s(%d): got %s documented %s", kind, n, showBinsRat(gn), showBinsRat(tn.Bins())))
	}
	if zero.Cmp(ratOf(got.GetZeroCount())) != 0 {
		r.oracleFail("decoded-content", fmt.Sprintf("zero count: got %v documented %s", got.GetZeroCount(), showRat(zero)))
	}
	if cur != nil && !got.IndexMapping.Equals(cur) {
		r.oracleFail("decoded-mapping", "decoded sketch carries a different mapping")
	}
}
