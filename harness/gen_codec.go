package main

import (
	"fmt"
	"math"
)

func (g *Gen) genCodec(n int) {
	r := g.rng
	g.beginHist("C18 codecs")
	// --- integers: every bit-length class, 2^k±d, extremes
	var us []uint64
	for k := 0; k < 64; k++ {
		p := uint64(1) << uint(k)
		for _, d := range []uint64{0, 1, 2, 3} {
			us = append(us, p+d, p-d)
		}
		us = append(us, p|(r.U64()&(p-1)))
	}
	us = append(us, 0, 1, 127, 128, 16383, 16384, math.MaxUint64, math.MaxUint64-1, 1<<63, 1<<56, 1<<56-1, 1<<63-1)
	for i := 0; i < n; i++ {
		us = append(us, r.U64()>>uint(r.Intn(64)))
	}
	for _, u := range us {
		g.emit("codec encu %d", u)
		g.emit("codec encv %d", int64(u))
		g.emit("codec encv %d", -int64(u>>1))
	}
	g.stats["codec:ints"] += len(us)
	for _, v := range []int64{math.MaxInt32, math.MaxInt32 + 1, math.MinInt32, math.MinInt32 - 1, math.MaxInt64, math.MinInt64, 0, -1} {
		g.emit("codec encv %d", v)
	}
	// the 32-bit reader on the encodings of values at and around the int32 limits (and a sample of others)
	zz := func(v int64) []byte {
		u := uint64(v<<1) ^ uint64(v>>63)
		var b []byte
		for i := 0; i < 8 && u >= 0x80; i++ {
			b = append(b, byte(u)|0x80)
			u >>= 7
		}
		return append(b, byte(u))
	}
	for _, base := range []int64{math.MaxInt32, math.MinInt32, 0, 1 << 20, -(1 << 20), math.MaxInt64, math.MinInt64} {
		for d := int64(-2); d <= 2; d++ {
			if (base == math.MaxInt64 && d > 0) || (base == math.MinInt64 && d < 0) {
				continue
			}
			g.emit("codec decv32 %s", showBytes(zz(base+d)))
			g.emit("codec decv32 %s", showBytes(append(zz(base+d), 0x81, 0x00)))
		}
	}
	// --- floats: all classes
	var fs []uint64
	special := []float64{0, 1, 2, 3, 0.5, 0.25, 1.5, 1e-300, 1e300, math.MaxFloat64, math.SmallestNonzeroFloat64,
		math.Inf(1), math.Inf(-1), -1, -2, -0.5, 1 << 52, 1<<53 - 1, 1 << 53, 1<<53 + 2, 1e15, 123456789, 0.1, 1.0 / 3}
	for _, f := range special {
		fs = append(fs, math.Float64bits(f))
	}
	fs = append(fs, 0x8000000000000000, 0x000fffffffffffff, 0x0010000000000000, 0x7fefffffffffffff, 0xffefffffffffffff, 0xbff0000000000000)
	// every binade: 2^k, 1.25·2^k, 2^k + a low bit, the float just below 2^k (the +1 / rotate / shift arithmetic of the
	// varfloat codec and of its size function changes regime at particular exponents, e.g. 2^64)
	for k := -70; k <= 70; k++ {
		p := math.Ldexp(1, k)
		for _, f := range []float64{p, 1.25 * p, p + math.Ldexp(1, k-50), math.Nextafter(p, 0), 1.5 * p, -p} {
			fs = append(fs, math.Float64bits(f))
		}
	}
	for i := 0; i < 2000 && i < n; i++ {
		fs = append(fs, math.Float64bits(float64(r.Intn(1<<20)))) // small integers: the compact case
		fs = append(fs, math.Float64bits(float64(r.U64()>>11)))   // integers below 2^53
	}
	for i := 0; i < n; i++ {
		b := r.U64()
		if f := math.Float64frombits(b); math.IsNaN(f) {
			continue
		}
		fs = append(fs, b)
		fs = append(fs, math.Float64bits(float64(r.Intn(1<<12))/1024)) // dyadic weights of the envelope
	}
	for _, b := range fs {
		g.emit("codec encf %016x", b)
		if !math.IsNaN(math.Float64frombits(b)) {
			g.emit("codec encvf %016x", b)
		}
	}
	// NaN patterns through the fixed-width codec
	for _, b := range []uint64{0x7ff8000000000000, 0x7ff0000000000001, 0xfff8000000000123, 0x7fffffffffffffff} {
		g.emit("codec encf %016x", b)
	}
	g.stats["codec:floats"] += len(fs)
	// --- byte strings: exhaustive up to length 2 (then a fixed trailer), random up to 12
	decs := []string{"decu", "decv", "decv32", "decf", "decvf"}
	emitAll := func(bs []byte) {
		for _, d := range decs {
			g.emit("codec %s %s", d, showBytes(bs))
		}
		g.stats["codec:bytestrings"]++
	}
	emitAll([]byte{})
	step := 1
	if !g.thorough() {
		step = 5 // quick: every 5th two-byte string (+ all one-byte strings)
	}
	for a := 0; a < 256; a++ {
		emitAll([]byte{byte(a)})
		emitAll([]byte{byte(a), 0xC3, 0x01}) // followed by trailing bytes
	}
	for a := 0; a < 256; a++ {
		for b := (a * 7) % step; b < 256; b += step {
			emitAll([]byte{byte(a), byte(b)})
		}
	}
	for i := 0; i < n/4; i++ {
		l := r.Range(0, 12)
		bs := make([]byte, l)
		for j := range bs {
			if r.Bool(60) {
				bs[j] = byte(r.Intn(256)) | 0x80 // long continuation runs
			} else {
				bs[j] = byte(r.Intn(256))
			}
		}
		emitAll(bs)
	}
	_ = fmt.Sprint
}
